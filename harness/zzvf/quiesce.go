//go:build verif

package zzvf

import (
	"os"
	"runtime"
	"sync/atomic"
	"time"
)

var jitterState atomic.Uint64

// QuiesceBase is the number of goroutines that exist before the harness body runs.
var QuiesceBase = 0

func quiesceNative() int {
	deadline := time.Now().Add(300 * time.Millisecond)
	for time.Now().Before(deadline) {
		if runtime.NumGoroutine() <= QuiesceBase {
			return 0
		}
		time.Sleep(5 * time.Millisecond)
	}
	n := runtime.NumGoroutine() - QuiesceBase
	if n < 0 {
		n = 0
	}
	return n
}

// Jitter pauses for a random short time (native replays under the race detector insert it, through
// overlay copies of the repository files, before every mutex Lock to widen interleaving windows).
var jitterLong = os.Getenv("VF_JITTER") == "long"

func Jitter() {
	n := jitterState.Add(0x9e3779b97f4a7c15)
	n ^= n >> 29
	if jitterLong && (n>>8)%12 == 0 {
		// second replay phase: occasional long pauses, so that two pauses can overlap
		time.Sleep(time.Duration((n>>16)%23) * 100 * time.Microsecond)
		return
	}
	switch n % 4 {
	case 0:
	case 1:
		runtime.Gosched()
	default:
		time.Sleep(time.Duration(n%97) * time.Microsecond)
	}
}

// Pause makes the calling harness thread wait a random moment (0..600 microseconds) in a native replay, so
// that a one-shot observer does not always look before anything has happened.  No effect in the engines.
func Pause() {
	n := jitterState.Add(0x9e3779b97f4a7c15)
	n ^= n >> 31
	time.Sleep(time.Duration(n%600) * time.Microsecond)
}
