//go:build verif

package zzvf

import (
	"runtime"
	"time"
)

// QuiesceBase is the number of goroutines that exist before the harness body runs.
var QuiesceBase = 0

func quiesceNative() int {
	deadline := time.Now().Add(300 * time.Millisecond)
	for time.Now().Before(deadline) {
		if runtime.NumGoroutine() <= QuiesceBase {
			return 0
		}
		time.Sleep(5 * time.Millisecond)
	}
	n := runtime.NumGoroutine() - QuiesceBase
	if n < 0 {
		n = 0
	}
	return n
}
