//go:build verif

// Package zzvf holds the harness primitives.  The symbolic executor intercepts
// every function here by name; the bodies below are what the *native* build runs
// when a solver model is replayed against the real code.
package zzvf

import (
	"encoding/json"
	"fmt"
	"math"
	"os"
	"strings"
)

type replayFile struct {
	Inputs map[string]uint64            `json:"inputs"`
	UF     map[string]map[string]uint64 `json:"uf"`
	Label  string                       `json:"label"`
}

var rf replayFile
var loaded bool
var nChoice int

// Failed lists the labels of assertions that failed during a native replay.
var Failed []string
var AssumeFailed bool

func load() {
	if loaded {
		return
	}
	loaded = true
	rf.Inputs = map[string]uint64{}
	path := os.Getenv("VF_REPLAY")
	if path == "" {
		return
	}
	b, err := os.ReadFile(path)
	if err != nil {
		panic("zzvf: cannot read replay file: " + err.Error())
	}
	if err := json.Unmarshal(b, &rf); err != nil {
		panic("zzvf: bad replay file: " + err.Error())
	}
	if rf.Inputs == nil {
		rf.Inputs = map[string]uint64{}
	}
}

// Reset re-arms the replay state (used by the replay test between runs).
func Reset() { loaded = false; nChoice = 0; lastChoice = nil; Failed = nil; AssumeFailed = false; resetConc() }

func in(name string) uint64 { load(); return rf.Inputs[name] }

func Int(name string) int         { return int(in(name)) }
func Int64(name string) int64     { return int64(in(name)) }
func Int32(name string) int32     { return int32(in(name)) }
func Rune(name string) rune       { return rune(int32(in(name))) }
func Int16(name string) int16     { return int16(in(name)) }
func Int8(name string) int8       { return int8(in(name)) }
func Uint(name string) uint       { return uint(in(name)) }
func Uint64(name string) uint64   { return in(name) }
func Uint32(name string) uint32   { return uint32(in(name)) }
func Uint16(name string) uint16   { return uint16(in(name)) }
func Uint8(name string) uint8     { return uint8(in(name)) }
func Byte(name string) byte       { return byte(in(name)) }
func Bool(name string) bool       { return in(name)&1 == 1 }
func Float64(name string) float64 { return math.Float64frombits(in(name)) }
func Float32(name string) float32 { return math.Float32frombits(uint32(in(name))) }

func Ints(name string, n int) []int {
	out := make([]int, n)
	for i := range out {
		out[i] = int(in(fmt.Sprintf("%s[%d]", name, i)))
	}
	return out
}

func Float64s(name string, n int) []float64 {
	out := make([]float64, n)
	for i := range out {
		out[i] = math.Float64frombits(in(fmt.Sprintf("%s[%d]", name, i)))
	}
	return out
}

func Bytes(name string, n int) []byte {
	out := make([]byte, n)
	for i := range out {
		out[i] = byte(in(fmt.Sprintf("%s[%d]", name, i)))
	}
	return out
}

func String(name string, n int) string { return string(Bytes(name, n)) }

// Choice returns a fresh value in [0,k) at every call.
func Choice(name string, k int) int {
	nChoice++
	load()
	raw, recorded := rf.Inputs[fmt.Sprintf("%s#%d", name, nChoice)]
	v := int(raw)
	if !recorded && rf.Label == "nonterm" {
		// the witness of a non-terminating run was cut at the step budget: the answers go on as they were
		v = lastChoice[name]
	}
	if v < 0 || v >= k {
		v = 0
	}
	if recorded {
		if lastChoice == nil {
			lastChoice = map[string]int{}
		}
		lastChoice[name] = v
	}
	return v
}

var lastChoice map[string]int

// UF1/UF2 are uninterpreted functions: equal arguments give equal results.
func UF1(fn string, x int) int {
	load()
	return int(rf.UF["uf_"+fn][fmt.Sprint(uint64(x))])
}

func UF2(fn string, x, y int) int {
	load()
	return int(rf.UF["uf_"+fn][fmt.Sprint(uint64(x))+","+fmt.Sprint(uint64(y))])
}

// Rank1 is an uninterpreted function into 0..15.
func Rank1(fn string, x int) int {
	load()
	return int(rf.UF["uf_"+fn][fmt.Sprint(uint64(x))] & 15)
}

// SameTerms: (engine) the slices hold syntactically the same symbolic values;
// natively it is a plain multiset comparison.
func SameTerms(a, b []int) bool {
	if len(a) != len(b) {
		return false
	}
	m := map[int]int{}
	for _, x := range a {
		m[x]++
	}
	for _, x := range b {
		m[x]--
	}
	for _, v := range m {
		if v != 0 {
			return false
		}
	}
	return true
}

type assumeFailed struct{}

func Assume(c bool) {
	if !c {
		AssumeFailed = true
		fmt.Println("VF-ASSUME-FAILED")
		panic(assumeFailed{})
	}
}

type assertFailed struct{ label string }

func Assert(label string, c bool) {
	if !c {
		Failed = append(Failed, label)
		fmt.Println("VF-ASSERT-FAILED " + label)
		panic(assertFailed{label})
	}
}

func And(a, b bool) bool     { return a && b }
func Or(a, b bool) bool      { return a || b }
func Not(a bool) bool        { return !a }
func Implies(a, b bool) bool { return !a || b }
func Iff(a, b bool) bool     { return a == b }
func IteInt(c bool, a, b int) int {
	if c {
		return a
	}
	return b
}

// SameFloat: identical up to NaN payload (distinguishes -0 from +0).
func SameFloat(a, b float64) bool {
	if a != a || b != b {
		return a != a && b != b
	}
	return math.Float64bits(a) == math.Float64bits(b)
}

func StrEq(a, b string) bool   { return a == b }
func StrLess(a, b string) bool { return a < b }

func Class(name string, c bool) {}
func Reach(label string)        {}
func Observe(label string, v any) {
	fmt.Printf("VF-OBSERVE %s %v\n", label, v)
}

// Panics runs f and reports whether it panicked, and whether with a Go run-time error.
func Panics(f func()) (panicked bool, runtimeErr bool) {
	defer func() {
		if r := recover(); r != nil {
			switch r.(type) {
			case assertFailed, assumeFailed:
				panic(r)
			}
			panicked = true
			if e, ok := r.(interface{ RuntimeError() }); ok {
				_ = e
				runtimeErr = true
			} else if e, ok := r.(error); ok && strings.HasPrefix(e.Error(), "runtime error") {
				runtimeErr = true
			}
		}
	}()
	f()
	return
}

// PanicText is Panics that also returns the message of a string panic.
func PanicText(f func()) (panicked bool, runtimeErr bool, msg string) {
	defer func() {
		if r := recover(); r != nil {
			switch r.(type) {
			case assertFailed, assumeFailed:
				panic(r)
			}
			panicked = true
			if _, ok := r.(interface{ RuntimeError() }); ok {
				runtimeErr = true
				msg = fmt.Sprint(r)
			} else if s, ok := r.(string); ok {
				msg = s
			} else {
				msg = fmt.Sprintf("<%T>", r)
			}
		}
	}()
	f()
	return
}

// Track(tag) labels the heap accesses that follow (engine); Interference() is the number of
// locations touched under two different tags (InterferenceG: by two goroutines), at least once
// for writing, with no common lock.  Natively both are no-ops: witnesses are replayed under -race.
// Par: (engine) runs f and then g, labelling their heap accesses 1 and 2; natively it runs them
// concurrently in two goroutines (the replay binary is built with -race).
func Par(f, g func()) {
	done := make(chan struct{}, 2)
	run := func(h func()) {
		defer func() {
			if r := recover(); r != nil {
				fmt.Println("VF-PAR-PANIC", r)
			}
			done <- struct{}{}
		}()
		h()
	}
	go run(f)
	go run(g)
	<-done
	<-done
}

func Track(tag int)      {}
func Interference() int  { return 0 }
func InterferenceG() int { return 0 }

// KnownText: (engine) the text with parts that depend on symbolic data shown as "<?>" / '?';
// natively the string itself.
func KnownText(s string) string { return s }

// Quiesce lets other goroutines run; natively it sleeps briefly and reports 0
// (goroutine leaks are confirmed by the replay driver with a goroutine dump).
func Quiesce() int { return quiesceNative() }

func Concrete(x, lo, hi int) int { return x }
func Budget(n int)               {}
func BudgetReset()               {}
