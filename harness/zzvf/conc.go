//go:build verif

package zzvf

import (
	"fmt"
	"runtime"
	"sync"
	"sync/atomic"
	"time"
)

// Primitives for concurrent harnesses (C04-C06).  The BMC front end records them as events; the
// bodies below are the native behaviour used when a witness is replayed.

var (
	goWG    sync.WaitGroup
	clock   atomic.Int64
	slotsMu sync.Mutex
	slots   = map[string]int{}
)

func Share(collection any)       {}
func ShareWG(wg *sync.WaitGroup) {}
func TraceStart()                {}

// EventBound bounds the number of events per thread path explored by the BMC front end.
func EventBound(n int) {}

// Go starts a harness thread.
func Go(f func()) {
	goWG.Add(1)
	liveGo.Add(1)
	go func() {
		defer goWG.Done()
		defer liveGo.Add(-1)
		f()
	}()
}

var liveGo atomic.Int64

// HelpersDone reports whether every goroutine started by the code under test (not by vf.Go) has
// finished.  Natively this can only be estimated from the goroutine count: false is returned only when
// a goroutine beyond the test's own, the live harness threads and the WaitAll watcher certainly exists.
func HelpersDone() bool {
	return runtime.NumGoroutine()-QuiesceBase-int(liveGo.Load())-1 <= 0
}

// WaitAll waits until every harness thread has finished; a thread that never finishes is a deadlock.
func WaitAll() {
	done := make(chan struct{})
	go func() { goWG.Wait(); close(done) }()
	select {
	case <-done:
	case <-time.After(3 * time.Second):
		fmt.Println("VF-DEADLOCK some harness thread never finished")
		panic(assertFailed{"deadlock"})
	}
}

// Begin / End are time stamps taken immediately before / after an API call.
func Begin() int { return int(clock.Add(1)) }
func End() int   { return int(clock.Add(1)) }

func Put(name string, v int) {
	slotsMu.Lock()
	slots[name] = v
	slotsMu.Unlock()
}

func Get(name string) int {
	slotsMu.Lock()
	defer slotsMu.Unlock()
	return slots[name]
}

func resetConc() {
	goWG = sync.WaitGroup{}
	clock.Store(0)
	slotsMu.Lock()
	slots = map[string]int{}
	slotsMu.Unlock()
}
