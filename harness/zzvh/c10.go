//go:build verif

package zzvh

import (
	mod "github.com/craterdog/go-collection-framework/v4"
	age "github.com/craterdog/go-collection-framework/v4/agent"
	cdc "github.com/craterdog/go-collection-framework/v4/cdcn"
	col "github.com/craterdog/go-collection-framework/v4/collection"
	vf "github.com/craterdog/go-collection-framework/v4/zzvf"
	"math"
)

// roundTrip: ParseSource(FormatValue(v)) succeeds, compares equal to v, and formats to the same text.
func roundTrip(tag string, v any, unordered bool) {
	vf.Budget(20000000)
	text := mod.FormatValue(v)
	var back any
	p, rt := vf.Panics(func() { back = mod.ParseSource(text) })
	vf.Assert(tag+"-parses", vf.And(!p, !rt))
	if !p {
		k := age.Collator[any]().Make()
		vf.Assert(tag+"-value-equal", k.CompareValues(v, back))
		if !unordered {
			vf.Assert(tag+"-text-fixpoint", vf.StrEq(mod.FormatValue(back), text))
		}
	}
	vf.BudgetReset()
}

// leaf kinds: 0 bool, 1 small int64 (symbolic 16-bit), 2 uint64 (symbolic 16-bit), 3 nil, 4 rune (printable ASCII),
// 5 string of one printable character, 6..: special concrete values
var c10floats = []float64{0, negZero(), 1, -1.5, 123.456, 1e-4, 1e5, 999999, 1234567.0, 1e6, 1e21, 1.5e-7, 1e-5, 5e-324, 1.7976931348623157e308, 0.1, 100}
var c10ints = []int64{0, -1, 9, 10, -10, 99, 100, 9223372036854775807, -9223372036854775808, 1000000000000}
var c10uints = []uint64{0, 1, 15, 16, 255, 0x8000000000000000, 0xffffffffffffffff}
var c10runes = []rune{'a', '\'', '"', '\\', '\n', '\t', 0, 0x7f, 'é', 0x2028, 0x1f600, 0xfffd, 0x10ffff}
var c10strs = []string{"", "a", "a\"b", "a'b", "\\", "\n\t", "é\U0001f600", "\xff", "a\x00b", " "}

func leafOf(kind int, tag string) any {
	switch kind {
	case 0:
		return vf.Bool(tag)
	case 1:
		return int64(vf.Int16(tag))
	case 2:
		return uint64(vf.Uint16(tag))
	case 3:
		return nil
	case 4:
		r := vf.Rune(tag)
		vf.Assume(vf.And(r >= 0x20, r <= 0x7e))
		return r
	case 5:
		b := vf.Byte(tag)
		vf.Assume(vf.And(b >= 0x20, b <= 0x7e))
		return string([]byte{b})
	}
	return nil
}

// VF_C10_Leaf: a collection of one symbolic leaf of each kind, in each of the value contexts.
func VF_C10_Leaf(kind, ctx int) {
	x := leafOf(kind, "x")
	switch ctx {
	case 0:
		roundTrip("list", col.List[any](nil).MakeFromArray([]any{x}), false)
	case 1:
		roundTrip("array", col.Array[any](nil).MakeFromArray([]any{x, x}), false)
	case 2:
		if x != nil {
			c := col.Catalog[any, any](nil).Make()
			c.SetValue(x, x)
			roundTrip("catalog-key-and-value", c, false)
		}
	}
	vf.Reach("end")
}

// VF_C10_Special: boundary / special concrete literals of every intrinsic type.
func VF_C10_Special(typ, i int) {
	var x any
	switch typ {
	case 0:
		if i >= len(c10floats) {
			vf.Reach("end")
			return
		}
		x = c10floats[i]
		f := c10floats[i]
		vf.Class("float-printed-in-exponent-form", f != 0 && (f >= 1e6 || f <= -1e6 || (f < 1e-4 && f > -1e-4)))
	case 1:
		if i >= len(c10ints) {
			vf.Reach("end")
			return
		}
		x = c10ints[i]
	case 2:
		if i >= len(c10uints) {
			vf.Reach("end")
			return
		}
		x = c10uints[i]
	case 3:
		if i >= len(c10runes) {
			vf.Reach("end")
			return
		}
		x = c10runes[i]
	case 4:
		if i >= len(c10strs) {
			vf.Reach("end")
			return
		}
		x = c10strs[i]
	case 5:
		if i >= len(c10floats) {
			vf.Reach("end")
			return
		}
		x = complex(c10floats[i], c10floats[(i+3)%len(c10floats)])
	}
	roundTrip("special", col.List[any](nil).MakeFromArray([]any{x, x}), false)
	// exact numeric values: floats and the parts of complex numbers come back bit for bit (signed zeros!)
	if typ == 0 || typ == 5 {
		vf.Budget(20000000)
		var back any
		p, _ := vf.Panics(func() { back = mod.ParseSource(mod.FormatValue(col.List[any](nil).MakeFromArray([]any{x}))) })
		if !p {
			got, isSeq := seqOf(back)
			if isSeq && len(got) == 1 {
				switch want := x.(type) {
				case float64:
					g, isF := got[0].(float64)
					vf.Assert("float-bits-exact", isF && math.Float64bits(g) == math.Float64bits(want))
				case complex128:
					g, isC := got[0].(complex128)
					vf.Assert("complex-bits-exact", isC && math.Float64bits(real(g)) == math.Float64bits(real(want)) && math.Float64bits(imag(g)) == math.Float64bits(imag(want)))
				}
			}
		}
		vf.BudgetReset()
	}
	vf.Reach("end")
}

// VF_C10_Shapes: the seven kinds x sizes 0..3 with symbolic leaves, nested one level.
func collectionOf(kind, n int, tag string, inner func(i int) any) (any, bool) {
	items := make([]any, n)
	for i := range items {
		items[i] = inner(i)
	}
	switch kind {
	case 0:
		return col.Array[any](nil).MakeFromArray(items), false
	case 1:
		return col.List[any](nil).MakeFromArray(items), false
	case 2:
		return col.Set[any](nil).MakeFromArray(items), false
	case 3:
		return col.Stack[any](nil).MakeFromArray(items), false
	case 4:
		return col.Queue[any](nil).MakeFromArray(items), false
	case 5:
		c := col.Catalog[any, any](nil).Make()
		for i, it := range items {
			c.SetValue(int64(i+1), it)
		}
		return c, false
	}
	m := col.Map[any, any](nil).Make()
	for i, it := range items {
		m.SetValue(int64(i+1), it)
	}
	return m, true
}

func VF_C10_Shapes(kind, n int) {
	v, unordered := collectionOf(kind, n, "x", func(i int) any { return int64(vf.Int8("x" + string(rune('0'+i)))) })
	roundTrip("flat", v, unordered)
	vf.Reach("end")
}

func VF_C10_Nested(outer, inner int) {
	v, unordered := collectionOf(outer, 2, "o", func(i int) any {
		w, _ := collectionOf(inner, i, "i", func(j int) any { return vf.Bool("b" + string(rune('0'+i)) + string(rune('0'+j))) })
		return w
	})
	if inner == 6 {
		unordered = true
	}
	roundTrip("nested", v, unordered)
	vf.Reach("end")
}

// VF_C10_Pure: the text does not depend on earlier calls on the same notation - including failed ones.
func VF_C10_Pure(n, bad int) {
	xs := make([]any, n)
	for i := range xs {
		xs[i] = int64(vf.Int8("x" + string(rune('0'+i))))
	}
	good := col.List[any](nil).MakeFromArray(xs)
	want := mod.FormatValue(good)
	notation := mod.CDCN()
	vf.Budget(20000000)
	// an earlier successful call
	notation.FormatValue(col.List[any](nil).MakeFromArray([]any{int64(1), int64(2)}))
	vf.Assert("same-text-after-success", vf.StrEq(notation.FormatValue(good), want))
	// an earlier failing call: an unformattable leaf at some position / depth
	var poison any
	switch bad {
	case 0:
		poison = struct{ X int }{1}
	case 1:
		poison = make(chan int)
	case 2:
		poison = func() {}
	}
	var victim any
	switch n % 3 {
	case 0:
		victim = col.List[any](nil).MakeFromArray([]any{int64(1), poison, int64(3)})
	case 1:
		victim = col.List[any](nil).MakeFromArray([]any{int64(1), col.List[any](nil).MakeFromArray([]any{int64(2), poison})})
	case 2:
		c := col.Catalog[any, any](nil).Make()
		c.SetValue(int64(1), int64(1))
		c.SetValue(int64(2), poison)
		victim = c
	}
	p, rt := vf.Panics(func() { notation.FormatValue(victim) })
	vf.Assert("unformattable-value-panics", p)
	vf.Assert("unformattable-value-panics-with-diagnostic", !rt)
	vf.Assert("same-text-after-failure", vf.StrEq(notation.FormatValue(good), want))
	f := cdc.Formatter().Make()
	vf.Panics(func() { f.FormatValue(victim) })
	vf.Assert("formatter-depth-restored-after-failure", f.GetDepth() == 0)
	vf.Assert("formatter-same-text-after-failure", vf.StrEq(f.FormatValue(good), want))
	// the deepest nest that is formatted in full is still formatted in full by a formatter that failed earlier
	var deep any = int64(7)
	for i := 0; i < f.GetMaximum(); i++ {
		deep = col.List[any](nil).MakeFromArray([]any{deep})
	}
	wantDeep := cdc.Formatter().Make().FormatValue(deep)
	vf.Assert("formatter-same-deep-text-after-failure", vf.StrEq(f.FormatValue(deep), wantDeep))
	vf.BudgetReset()
	vf.Reach("end")
}

// VF_C10_Deep: FormatValue terminates on self-containing values (cycle length 1..3, alone or among
// siblings) and on nests deeper than its limit, eliding what is too deep.
func VF_C10_Deep(kind, _ int) {
	var v any
	switch kind {
	case 0: // a list containing only itself
		l := col.List[any](nil).Make()
		l.AppendValue(l)
		v = l
	case 1: // among siblings
		l := col.List[any](nil).Make()
		l.AppendValue(int64(1))
		l.AppendValue(l)
		v = l
	case 2: // cycle of length 2 through single-item lists
		a, b := col.List[any](nil).Make(), col.List[any](nil).Make()
		a.AppendValue(b)
		b.AppendValue(a)
		v = a
	case 3: // cycle of length 3
		a, b, c := col.List[any](nil).Make(), col.List[any](nil).Make(), col.List[any](nil).Make()
		a.AppendValue(b)
		b.AppendValue(c)
		c.AppendValue(a)
		c.AppendValue(int64(7))
		v = a
	case 4: // catalog whose only value is itself
		c := col.Catalog[any, any](nil).Make()
		c.SetValue("self", c)
		v = c
	case 5: // an acyclic nest deeper than the limit (12 single-item lists)
		var cur any = int64(1)
		for i := 0; i < 12; i++ {
			cur = col.List[any](nil).MakeFromArray([]any{cur})
		}
		v = cur
	case 6: // Go slice containing itself
		s := make([]any, 1)
		s[0] = s
		v = s
	case 7: // an elided nest followed by a sibling: the elision must not change how the sibling is formatted
		vf.Budget(30000000)
		for d := 4; d <= 9; d++ {
			var deep any = int64(1)
			for i := 0; i < 12; i++ {
				deep = col.List[any](nil).MakeFromArray([]any{deep})
			}
			var sib any = int64(7)
			for i := 0; i < d; i++ {
				sib = col.List[any](nil).MakeFromArray([]any{sib})
			}
			alone := mod.FormatValue(col.List[any](nil).MakeFromArray([]any{sib}))
			both := mod.FormatValue(col.List[any](nil).MakeFromArray([]any{deep, sib}))
			lines := splitLines(both)
			vf.Assert("two-items-on-two-lines", len(lines) >= 4)
			if len(lines) >= 4 {
				vf.Assert("first-item-elided", containsStr(lines[1], "..."))
				vf.Assert("sibling-of-elided-nest-formatted-as-when-alone", containsStr(lines[2], "...") == containsStr(alone, "..."))
			}
		}
		vf.BudgetReset()
		vf.Reach("end")
		return
	}
	vf.Budget(3000000)
	var text string
	p, rt := vf.Panics(func() { text = mod.FormatValue(v) })
	vf.BudgetReset()
	vf.Assert("terminates-without-panic", vf.And(!p, !rt))
	if !p {
		vf.Assert("elides-with-ellipsis", len(text) > 0 && containsStr(text, "..."))
	}
	// the same formatter afterwards: depth back to zero, later texts unchanged
	var okv any = int64(7)
	for i := 0; i < 7; i++ {
		okv = col.List[any](nil).MakeFromArray([]any{okv})
	}
	want := mod.FormatValue(okv)
	f := cdc.Formatter().Make()
	vf.Budget(6000000)
	vf.Panics(func() { f.FormatValue(v) })
	vf.Assert("formatter-depth-restored-after-elision", f.GetDepth() == 0)
	vf.Assert("formatter-same-text-after-elision", f.FormatValue(okv) == want)
	vf.BudgetReset()
	vf.Reach("end")
}

func splitLines(s string) []string {
	var out []string
	start := 0
	for i := 0; i < len(s); i++ {
		if s[i] == '\n' {
			out = append(out, s[start:i])
			start = i + 1
		}
	}
	if start < len(s) {
		out = append(out, s[start:])
	}
	return out
}

func containsStr(s, sub string) bool {
	for i := 0; i+len(sub) <= len(s); i++ {
		if s[i:i+len(sub)] == sub {
			return true
		}
	}
	return false
}
