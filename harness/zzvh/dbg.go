//go:build verif

package zzvh

import (
	mod "github.com/craterdog/go-collection-framework/v4"
	col "github.com/craterdog/go-collection-framework/v4/collection"
	vf "github.com/craterdog/go-collection-framework/v4/zzvf"
)

func VF_DBG_Parse(n, _ int) {
	src := "[1, 2, 3](List)\n"
	switch n {
	case 1:
		src = "[\n    \"a\": 1\n    \"b\": [true, nil](Set)\n](Catalog)\n"
	case 2:
		src = "[0x1f, 'x', 1.5, (1.0+2.0i)](Array)\n"
	}
	v := mod.ParseSource(src)
	if n == 0 {
		l := v.(col.ListLike[any])
		vf.Assert("size", l.GetSize() == 3)
		vf.Assert("first", l.GetValue(1).(int64) == 1)
	}
	out := mod.FormatValue(v)
	vf.Observe("formatted", out)
	vf.Assert("roundtrip-text", out == src)
	vf.Reach("end")
}
