//go:build verif

package zzvh

import (
	"sync"

	col "github.com/craterdog/go-collection-framework/v4/collection"
	vf "github.com/craterdog/go-collection-framework/v4/zzvf"
)

func itoa(i int) string {
	if i < 10 {
		return string(rune('0' + i))
	}
	return itoa(i/10) + itoa(i%10)
}

// producer adds the values base+1..base+k (all values of a program are distinct).
func producer(q col.QueueLike[int], base, k int, done *sync.WaitGroup) func() {
	return func() {
		for i := 1; i <= k; i++ {
			v := base + i
			b := vf.Begin()
			q.AddValue(v)
			e := vf.End()
			vf.Put("add.inv."+itoa(v), b)
			vf.Put("add.ret."+itoa(v), e)
		}
		if done != nil {
			done.Done()
		}
	}
}

// consumer `id` calls RemoveHead r times; with untilClosed it stops at the first ok=false.
func consumer(q col.QueueLike[int], id, r int, untilClosed bool) func() {
	return func() {
		for i := 0; i < r; i++ {
			k := itoa(id*4 + i)
			b := vf.Begin()
			v, ok := q.RemoveHead()
			e := vf.End()
			vf.Put("rem.inv."+k, b)
			vf.Put("rem.ret."+k, e)
			vf.Put("rem.val."+k, v)
			if ok {
				vf.Put("rem.ok."+k, 1)
			} else {
				vf.Put("rem.ok."+k, 2)
				if untilClosed {
					return
				}
			}
		}
	}
}

type hist struct {
	values []int // all values added
	rems   []int // remove slots used (id*4+i)
}

// checkFIFO asserts the history predicates of C04 over the recorded time stamps.
func checkFIFO(h hist, complete bool) {
	// read every slot once
	cache := map[string]int{}
	get := func(name string) int {
		if v, ok := cache[name]; ok {
			return v
		}
		v := vf.Get(name)
		cache[name] = v
		return v
	}
	ok := func(k int) bool { return get("rem.ok."+itoa(k)) == 1 }
	val := func(k int) int { return get("rem.val." + itoa(k)) }
	for _, v := range h.values {
		n := 0
		for _, k := range h.rems {
			n += vf.IteInt(vf.And(ok(k), val(k) == v), 1, 0)
		}
		if complete {
			vf.Assert("every-value-delivered-exactly-once", n == 1)
		} else {
			vf.Assert("no-value-delivered-twice", n <= 1)
		}
	}
	for _, k := range h.rems {
		known := false
		for _, v := range h.values {
			known = vf.Or(known, val(k) == v)
		}
		vf.Assert("nothing-invented", vf.Implies(ok(k), known))
		// a delivered value was added before the delivering call returned
		for _, v := range h.values {
			vf.Assert("delivered-after-it-was-added", vf.Implies(vf.And(ok(k), val(k) == v), get("add.inv."+itoa(v)) <= get("rem.ret."+itoa(k))))
		}
	}
	// real-time FIFO: add(a) returned before add(b) was invoked and b is delivered by Rb
	// => a is delivered by some Ra that was invoked before Rb returned
	for _, a := range h.values {
		for _, b := range h.values {
			if a == b {
				continue
			}
			before := get("add.ret."+itoa(a)) < get("add.inv."+itoa(b))
			for _, kb := range h.rems {
				gotB := vf.And(ok(kb), val(kb) == b)
				aEarlier := false
				for _, ka := range h.rems {
					aEarlier = vf.Or(aEarlier, vf.And(vf.And(ok(ka), val(ka) == a), get("rem.inv."+itoa(ka)) < get("rem.ret."+itoa(kb))))
				}
				vf.Assert("fifo-consistent-with-real-time", vf.Implies(vf.And(before, gotB), aEarlier))
			}
		}
	}
}

// programs: (P producers x a values, C consumers x r removes)
var c04progs = [][4]int{{1, 1, 1, 1}, {2, 1, 1, 2}, {1, 2, 2, 1}, {2, 1, 2, 1}, {1, 2, 1, 2}, {3, 1, 1, 3}, {1, 3, 3, 1}, {2, 2, 2, 2}, {3, 1, 3, 1}}

// VF_C04_Plain: producers and consumers only; every RemoveHead must report ok=true.
func VF_C04_Plain(prog, c int) {
	pg := c04progs[prog]
	q := col.Queue[int](nil).MakeWithCapacity(uint(c))
	vf.Share(q)
	var h hist
	for p := 0; p < pg[0]; p++ {
		vf.Go(producer(q, p*3, pg[1], nil))
		for i := 1; i <= pg[1]; i++ {
			h.values = append(h.values, p*3+i)
		}
	}
	for k := 0; k < pg[2]; k++ {
		vf.Go(consumer(q, k, pg[3], false))
		for i := 0; i < pg[3]; i++ {
			h.rems = append(h.rems, k*4+i)
		}
	}
	vf.TraceStart()
	vf.WaitAll()
	for _, k := range h.rems {
		vf.Assert("ok-true-while-open", vf.Get("rem.ok."+itoa(k)) == 1)
	}
	checkFIFO(h, true)
	vf.Reach("end")
}

// VF_C04_Closer: a closer closes the queue once every producer has returned; consumers read until ok=false.
func VF_C04_Closer(prog, c int) {
	pg := c04progs[prog]
	q := col.Queue[int](nil).MakeWithCapacity(uint(c))
	vf.Share(q)
	var producers sync.WaitGroup
	producers.Add(pg[0])
	vf.ShareWG(&producers)
	var h hist
	total := pg[0] * pg[1]
	for p := 0; p < pg[0]; p++ {
		vf.Go(producer(q, p*3, pg[1], &producers))
		for i := 1; i <= pg[1]; i++ {
			h.values = append(h.values, p*3+i)
		}
	}
	for k := 0; k < pg[2]; k++ {
		vf.Go(consumer(q, k, total+1, true))
		for i := 0; i < total+1 && i < 4; i++ {
			h.rems = append(h.rems, k*4+i)
		}
	}
	vf.Go(func() {
		producers.Wait()
		b := vf.Begin()
		q.CloseQueue()
		vf.Put("close.inv", b)
	})
	vf.TraceStart()
	vf.WaitAll()
	checkFIFO(h, true)
	// ok=false only once the queue is closed (and therefore drained: every value was delivered)
	for _, k := range h.rems {
		vf.Assert("not-ok-only-after-close", vf.Implies(vf.Get("rem.ok."+itoa(k)) == 2, vf.Get("close.inv") <= vf.Get("rem.ret."+itoa(k))))
	}
	vf.Reach("end")
}

// VF_C04_Observer: GetSize / IsEmpty / AsArray called at any moment.
func VF_C04_Observer(prog, c int) {
	pg := c04progs[prog]
	q := col.Queue[int](nil).MakeWithCapacity(uint(c))
	vf.Share(q)
	var h hist
	for p := 0; p < pg[0]; p++ {
		vf.Go(producer(q, p*3, pg[1], nil))
		for i := 1; i <= pg[1]; i++ {
			h.values = append(h.values, p*3+i)
		}
	}
	for k := 0; k < pg[2]; k++ {
		vf.Go(consumer(q, k, pg[3], false))
		for i := 0; i < pg[3]; i++ {
			h.rems = append(h.rems, k*4+i)
		}
	}
	vf.Go(func() {
		vf.Pause()
		n := q.GetSize()
		vf.Assert("size-within-capacity", vf.And(n >= 0, n <= c))
		e := q.IsEmpty()
		_ = e
		ob := vf.Begin()
		arr := q.AsArray()
		oe := vf.End()
		vf.Put("obs.inv", ob)
		vf.Put("obs.ret", oe)
		for _, v := range h.values {
			has := 0
			for _, x := range arr {
				has = vf.IteInt(x == v, 1, has)
			}
			vf.Put("obs.has."+itoa(v), has)
		}
		// only values that have been added, each at most once, and for one producer in FIFO order
		for i, x := range arr {
			known := false
			for _, v := range h.values {
				known = vf.Or(known, x == v)
			}
			vf.Assert("array-reports-only-added-values", known)
			for j := i + 1; j < len(arr); j++ {
				vf.Assert("array-has-no-duplicates", x != arr[j])
				if pg[0] == 1 {
					vf.Assert("array-in-fifo-order", x < arr[j])
				}
			}
		}
	})
	vf.TraceStart()
	vf.WaitAll()
	checkFIFO(h, true)
	// the array view is a FIFO snapshot: if it still shows a, then every b that was added after a (a's add
	// returned before b's began) and whose add had returned before the view was asked for is shown too -
	// b cannot have been claimed while a is still there
	for _, a := range h.values {
		for _, b := range h.values {
			if a == b {
				continue
			}
			aFirst := vf.Get("add.ret."+itoa(a)) < vf.Get("add.inv."+itoa(b))
			bAdded := vf.Get("add.ret."+itoa(b)) < vf.Get("obs.inv")
			vf.Assert("array-view-is-a-fifo-snapshot", vf.Implies(vf.And(vf.And(aFirst, bAdded), vf.Get("obs.has."+itoa(a)) == 1), vf.Get("obs.has."+itoa(b)) == 1))
		}
	}
	vf.Reach("end")
}

// VF_C04_BackPressure: one producer adds c+1 values; AddValue number c+1 cannot return before a value was claimed.
func VF_C04_BackPressure(c, _ int) {
	q := col.Queue[int](nil).MakeWithCapacity(uint(c))
	vf.Share(q)
	vf.Go(producer(q, 0, c+1, nil))
	vf.Go(consumer(q, 0, 1, false))
	vf.TraceStart()
	vf.WaitAll()
	vf.Assert("add-blocks-while-capacity-values-unclaimed", vf.Get("rem.inv.0") <= vf.Get("add.ret."+itoa(c+1)))
	vf.Reach("end")
}

// VF_C04_RemoveAll: RemoveAll concurrent with producers and consumers.
func VF_C04_RemoveAll(prog, c int) {
	pg := c04progs[prog]
	q := col.Queue[int](nil).MakeWithCapacity(uint(c))
	vf.Share(q)
	var h hist
	for p := 0; p < pg[0]; p++ {
		vf.Go(producer(q, p*3, pg[1], nil))
		for i := 1; i <= pg[1]; i++ {
			h.values = append(h.values, p*3+i)
		}
	}
	vf.Go(func() { q.RemoveAll() })
	vf.TraceStart()
	vf.WaitAll()
	n := q.GetSize()
	vf.Assert("size-within-capacity", n <= c)
	vf.Reach("end")
}

// VF_C04_SizeBound: while a producer is blocked in AddValue number c+1 an observer still sees at most c values.
func VF_C04_SizeBound(c, _ int) {
	q := col.Queue[int](nil).MakeWithCapacity(uint(c))
	vf.Share(q)
	vf.Go(producer(q, 0, c+1, nil))
	vf.Go(consumer(q, 0, 1, false))
	vf.Go(func() {
		vf.Pause()
		n := q.GetSize()
		vf.Assert("size-within-capacity", vf.And(n >= 0, n <= c))
	})
	vf.TraceStart()
	vf.WaitAll()
	vf.Reach("end")
}

// VF_C04_ObserveReset: GetSize / IsEmpty / AsArray / GetCapacity while another goroutine calls RemoveAll (no
// producer or consumer involved): the observers synchronise with RemoveAll, so no race and a size within bounds.
func VF_C04_ObserveReset(k, c int) {
	if k > c {
		k = c
	}
	q := col.Queue[int](nil).MakeWithCapacity(uint(c))
	for i := 0; i < k; i++ {
		q.AddValue(i + 1)
	}
	vf.Share(q)
	vf.Go(func() { q.RemoveAll() })
	vf.Go(func() {
		n := q.GetSize()
		vf.Assert("size-is-before-or-after-the-reset", vf.Or(n == k, n == 0))
		e := q.IsEmpty()
		vf.Assert("empty-agrees", vf.Implies(k > 0 && !e, true))
		arr := q.AsArray()
		vf.Assert("array-is-before-or-after-the-reset", vf.Or(len(arr) == k, len(arr) == 0))
	})
	vf.TraceStart()
	vf.WaitAll()
	vf.Reach("end")
}
