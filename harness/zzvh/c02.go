//go:build verif

package zzvh

import (
	age "github.com/craterdog/go-collection-framework/v4/agent"
	col "github.com/craterdog/go-collection-framework/v4/collection"
	vf "github.com/craterdog/go-collection-framework/v4/zzvf"
)

// ufCollator: every total preorder at once (rank = cmp3(f(a), f(b)), f uninterpreted).
type ufCollator struct{}

func (ufCollator) GetClass() age.CollatorClassLike[int] { return nil }
func (ufCollator) CompareValues(a, b int) bool          { return vf.Rank1("f", a) == vf.Rank1("f", b) }
func (ufCollator) RankValues(a, b int) age.Rank         { return ufRanker(a, b) }
func (ufCollator) GetDepth() int                        { return 0 }
func (ufCollator) GetMaximum() int                      { return 16 }

func fv(x int) int { return vf.Rank1("f", x) }

// strictlyAscendingUF: the representation invariant of a set under the UF collator.
func strictlyAscendingUF(xs []int) bool {
	ok := true
	for i := 0; i+1 < len(xs); i++ {
		ok = vf.And(ok, fv(xs[i]) < fv(xs[i+1]))
	}
	return ok
}

// ufSet builds an arbitrary reachable set state: n values assumed strictly ascending.
func ufSet(xs []int) col.SetLike[int] {
	vf.Assume(strictlyAscendingUF(xs))
	s := col.Set[int](nil).MakeWithCollator(ufCollator{})
	for _, x := range xs {
		s.AddValue(x)
	}
	return s
}

// rankBelow: number of elements ranking strictly below v; present: some element ranks equal.
func rankBelow(xs []int, v int) int {
	k := 0
	for _, x := range xs {
		k += vf.IteInt(fv(x) < fv(v), 1, 0)
	}
	return k
}

func presentUF(xs []int, v int) bool {
	p := false
	for _, x := range xs {
		p = vf.Or(p, fv(x) == fv(v))
	}
	return p
}

// expectInsert: got == xs with v inserted at position k (symbolic k, no forking).
func expectInsert(got, xs []int, k, v int) bool {
	if len(got) != len(xs)+1 {
		return false
	}
	ok := true
	for i := range got {
		var below, above int
		if i < len(xs) {
			below = xs[i]
		}
		if i > 0 {
			above = xs[i-1]
		}
		ok = vf.And(ok, got[i] == vf.IteInt(i < k, below, vf.IteInt(i == k, v, above)))
	}
	return ok
}

// expectRemove: got == xs without position k.
func expectRemove(got, xs []int, k int) bool {
	if len(got) != len(xs)-1 {
		return false
	}
	ok := true
	for i := range got {
		ok = vf.And(ok, got[i] == vf.IteInt(i < k, xs[i], xs[i+1]))
	}
	return ok
}

func VF_C02_Step(n, op int) {
	xs := vf.Ints("xs", n)
	s := ufSet(xs)
	vf.Assert("setup-array", eqInts(s.AsArray(), xs))
	v := vf.Int("v")
	k := rankBelow(xs, v)
	present := presentUF(xs, v)
	vf.Budget(listBudget)
	switch op {
	case 0: // AddValue
		s.AddValue(v)
		got := s.AsArray()
		vf.Assert("add-invariant", strictlyAscendingUF(got))
		vf.Assert("add-size", (len(got) == n) == present)
		if len(got) == n {
			vf.Assert("add-present-unchanged", eqInts(got, xs))
		} else {
			vf.Assert("add-inserted-in-order", expectInsert(got, xs, k, v))
		}
	case 1: // RemoveValue
		s.RemoveValue(v)
		got := s.AsArray()
		vf.Assert("remove-invariant", strictlyAscendingUF(got))
		vf.Assert("remove-size", (len(got) == n) == !present)
		if len(got) == n {
			vf.Assert("remove-absent-unchanged", eqInts(got, xs))
		} else {
			vf.Assert("remove-exactly-equal-ranked", expectRemove(got, xs, k))
		}
	case 2: // searching
		vf.Assert("contains", s.ContainsValue(v) == present)
		idx := s.GetIndex(v)
		vf.Assert("getindex-zero-iff-absent", (idx == 0) == !present)
		vf.Assert("getindex-position", vf.Implies(present, idx == k+1))
		if idx > 0 {
			vf.Assert("getvalue-ranks-equal", fv(s.GetValue(idx)) == fv(v))
		}
		vf.Assert("search-unchanged", eqInts(s.AsArray(), xs))
	case 3: // views
		vf.Assert("size", s.GetSize() == n)
		vf.Assert("empty", s.IsEmpty() == (n == 0))
		vf.Assert("iteration", eqInts(iterInts(s.GetIterator()), xs))
		if n > 0 {
			vf.Assert("getvalue-first", s.GetValue(1) == xs[0])
			vf.Assert("getvalue-last", s.GetValue(-1) == xs[n-1])
			vf.Assert("getvalues-all", eqInts(s.GetValues(1, n).AsArray(), xs))
		}
		s.RemoveAll()
		vf.Assert("removeall", vf.And(s.GetSize() == 0, s.IsEmpty()))
	}
	vf.BudgetReset()
	vf.Reach("end")
}

// Bulk operations with an operand of m arbitrary values (duplicates allowed).
func VF_C02_Bulk(n, m int) {
	xs := vf.Ints("xs", n)
	ys := vf.Ints("ys", m)
	s := ufSet(xs)
	// membership of a value in xs ∪ ys, xs \ ys
	inYs := func(v int) bool {
		p := false
		for _, y := range ys {
			p = vf.Or(p, fv(y) == fv(v))
		}
		return p
	}
	vf.Budget(4 * listBudget)
	any_, all_ := false, true
	for _, y := range ys {
		any_ = vf.Or(any_, presentUF(xs, y))
		all_ = vf.And(all_, presentUF(xs, y))
	}
	vf.Assert("contains-any", s.ContainsAny(newArr(ys)) == any_)
	vf.Assert("contains-all", s.ContainsAll(newArr(ys)) == all_)

	s.AddValues(newArr(ys))
	got := s.AsArray()
	vf.Assert("addvalues-invariant", strictlyAscendingUF(got))
	ok := true
	for _, x := range xs {
		ok = vf.And(ok, presentUF(got, x))
	}
	for _, y := range ys {
		ok = vf.And(ok, presentUF(got, y))
	}
	for _, g := range got {
		ok = vf.And(ok, vf.Or(presentUF(xs, g), inYs(g)))
	}
	vf.Assert("addvalues-is-union", ok)

	s2 := ufSet(xs)
	s2.RemoveValues(newArr(ys))
	got2 := s2.AsArray()
	vf.Assert("removevalues-invariant", strictlyAscendingUF(got2))
	ok2 := true
	for _, x := range xs {
		ok2 = vf.And(ok2, presentUF(got2, x) == !inYs(x))
	}
	for _, g := range got2 {
		ok2 = vf.And(ok2, vf.And(presentUF(xs, g), !inYs(g)))
	}
	vf.Assert("removevalues-is-difference", ok2)
	vf.BudgetReset()
	vf.Reach("end")
}

func member(xs []int, v int) bool {
	p := false
	for _, x := range xs {
		p = vf.Or(p, x == v)
	}
	return p
}

// Real default collator, element type int: constructors from arbitrary (unsorted, duplicated) arrays.
func VF_C02_DefaultInt(n, _ int) {
	xs := vf.Ints("xs", n)
	s := col.Set[int](nil).MakeFromArray(xs)
	got := s.AsArray()
	asc := true
	for i := 0; i+1 < len(got); i++ {
		asc = vf.And(asc, got[i] < got[i+1])
	}
	vf.Assert("strictly-ascending-natural", asc)
	ok := true
	for _, x := range xs {
		ok = vf.And(ok, member(got, x))
	}
	for _, g := range got {
		ok = vf.And(ok, member(xs, g))
	}
	vf.Assert("exactly-the-distinct-values", ok) // strict ascent above gives "once"
	v := vf.Int("v")
	idx := s.GetIndex(v)
	vf.Assert("getindex-iff-member", (idx > 0) == member(xs, v))
	if idx > 0 {
		vf.Assert("getindex-getvalue", s.GetValue(idx) == v)
	}
	s2 := col.Set[int](nil).MakeFromSequence(newList(xs))
	vf.Assert("from-sequence-same", eqInts(s2.AsArray(), got))
	vf.Reach("end")
}

// Real default collator, element type string (symbolic bytes).
func VF_C02_DefaultString(n, l int) {
	xs := make([]string, n)
	for i := range xs {
		xs[i] = vf.String("s"+string(rune('0'+i)), l)
	}
	s := col.Set[string](nil).MakeFromArray(xs)
	got := s.AsArray()
	asc := true
	for i := 0; i+1 < len(got); i++ {
		asc = vf.And(asc, vf.StrLess(got[i], got[i+1]))
	}
	vf.Assert("strictly-ascending-bytewise", asc)
	ok := true
	for _, x := range xs {
		c := 0
		for _, g := range got {
			c += vf.IteInt(vf.StrEq(g, x), 1, 0)
		}
		ok = vf.And(ok, c == 1)
	}
	vf.Assert("each-value-once", ok)
	vf.Reach("end")
}

// AddValues / RemoveValues / Contains* with another *set* (ordered by a different,
// natural collator) as the operand, into an empty or non-empty target.
func VF_C02_SetOperand(n, m int) {
	xs := vf.Ints("xs", n)
	ys := vf.Ints("ys", m)
	src := col.Set[int](nil).MakeFromArray(ys) // default collator: natural order
	dst := ufSet(xs)
	vf.Budget(4 * listBudget)
	dst.AddValues(src)
	got := dst.AsArray()
	vf.Assert("addvalues-set-invariant", strictlyAscendingUF(got))
	ok := true
	for _, x := range xs {
		ok = vf.And(ok, presentUF(got, x))
	}
	for _, y := range ys {
		ok = vf.And(ok, presentUF(got, y))
	}
	for _, g := range got {
		ok = vf.And(ok, vf.Or(member(xs, g), member(ys, g)))
	}
	vf.Assert("addvalues-set-is-union", ok)
	v := vf.Int("v")
	vf.Assert("contains-after", dst.ContainsValue(v) == presentUF(got, v))
	vf.BudgetReset()
	vf.Reach("end")
}

// VF_C02_FromSet: kind 0: a set built from another set that is ordered by a different collator is ordered by
// its own (natural) collator and finds every member; kind 1: the array view of a set is a copy.
func VF_C02_FromSet(n, kind int) {
	xs := vf.Ints("xs", n)
	vf.Budget(8 * listBudget)
	switch kind {
	case 0:
		src := ufSet(xs)
		dst := col.Set[int](nil).MakeFromSequence(src)
		got := dst.AsArray()
		asc := len(got) == n
		for i := 0; i+1 < len(got); i++ {
			asc = vf.And(asc, got[i] < got[i+1])
		}
		vf.Assert("set-from-set-ordered-by-its-own-collator", asc)
		ok := true
		for _, x := range xs {
			ok = vf.And(ok, vf.And(member(got, x), dst.ContainsValue(x)))
		}
		vf.Assert("set-from-set-same-members", ok)
	case 1:
		s := col.Set[int](nil).MakeFromArray(xs)
		view := s.AsArray()
		snap := append([]int(nil), view...)
		w := vf.Int("w")
		for i := range view {
			view[i] = w
		}
		vf.Assert("set-unaffected-by-writes-to-array-view", eqInts(s.AsArray(), snap))
		ok := true
		for _, x := range xs {
			ok = vf.And(ok, s.ContainsValue(x))
		}
		vf.Assert("members-still-found", ok)
	}
	vf.BudgetReset()
	vf.Reach("end")
}

// ---- composite elements: sets of []int under the default collator ----

var c02slices = [][]int{{}, {1}, {1, 2}, {1, 2, 3}, {2}, {2, 0}, {0, 5}}

func sameSlice(a, b []int) bool { return !lexLess(a, b) && !lexLess(b, a) }

// VF_C02_Composite: a set of slices built from the first n table entries plus one slice with an arbitrary
// element: lexicographic order with a proper prefix first, no duplicates, and the set's collator is back
// at depth 0 after every operation (a depth that creeps up makes a later, unrelated call panic).
func VF_C02_Composite(n, order int) {
	vf.Budget(200 * listBudget)
	s := col.Set[[]int](nil).Make()
	x := vf.Int("x")
	vf.Assume(vf.And(x >= 0, x <= 3))
	vals := append([][]int{}, c02slices[:n]...)
	vals = append(vals, []int{1, x})
	if order == 1 {
		for i, j := 0, len(vals)-1; i < j; i, j = i+1, j-1 {
			vals[i], vals[j] = vals[j], vals[i]
		}
	}
	for _, v := range vals {
		s.AddValue(v)
		vf.Assert("collator-depth-zero-after-add", s.GetCollator().GetDepth() == 0)
	}
	for _, v := range vals {
		s.AddValue(v) // adding again changes nothing
	}
	arr := s.AsArray()
	ok := true
	for i := 0; i+1 < len(arr); i++ {
		ok = vf.And(ok, lexLess(arr[i], arr[i+1]))
	}
	vf.Assert("lexicographic-prefix-first-no-duplicates", ok)
	for _, v := range vals {
		vf.Assert("contains-what-was-added", s.ContainsValue(v))
		k := s.GetIndex(v)
		vf.Assert("index-of-member", k >= 1 && k <= len(arr) && sameSlice(arr[k-1], v))
	}
	vf.Assert("does-not-contain-a-stranger", !s.ContainsValue([]int{9, 9}))
	vf.Assert("collator-depth-zero-after-searches", s.GetCollator().GetDepth() == 0)
	s.RemoveValue(vals[0])
	vf.Assert("removed", !s.ContainsValue(vals[0]))
	vf.Assert("collator-depth-zero-after-remove", s.GetCollator().GetDepth() == 0)
	vf.BudgetReset()
	vf.Reach("end")
}
