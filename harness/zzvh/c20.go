//go:build verif

package zzvh

import (
	mod "github.com/craterdog/go-collection-framework/v4"
	age "github.com/craterdog/go-collection-framework/v4/agent"
	col "github.com/craterdog/go-collection-framework/v4/collection"
	vf "github.com/craterdog/go-collection-framework/v4/zzvf"
)

// stubNotation stands for "a notation whose parser returns this collection" so that the
// conversion loop of the universal constructors is checked for arbitrary (symbolic) contents;
// the real parser is the subject of C11.
type stubNotation struct{ parsed any }

func (s *stubNotation) GetClass() col.NotationClassLike { return nil }
func (s *stubNotation) FormatValue(value any) string    { return "<stub>" }
func (s *stubNotation) ParseSource(source string) any   { return s.parsed }

type valKit[V any] struct {
	fresh func(name string) V
	eq    func(a, b V) bool
}

func i64Vals() valKit[int64] {
	return valKit[int64]{func(n string) int64 { return vf.Int64(n) }, func(a, b int64) bool { return a == b }}
}
func u64Vals() valKit[uint64] {
	return valKit[uint64]{func(n string) uint64 { return vf.Uint64(n) }, func(a, b uint64) bool { return a == b }}
}
func f64Vals() valKit[float64] {
	return valKit[float64]{func(n string) float64 {
		f := vf.Float64(n)
		vf.Assume(f == f)
		return f
	}, func(a, b float64) bool { return vf.SameFloat(a, b) }}
}
func strVals() valKit[string] {
	return valKit[string]{func(n string) string { return vf.String(n, 1) }, func(a, b string) bool { return vf.StrEq(a, b) }}
}
func runeVals() valKit[rune] {
	return valKit[rune]{func(n string) rune { return vf.Rune(n) }, func(a, b rune) bool { return a == b }}
}
func boolVals() valKit[bool] {
	return valKit[bool]{func(n string) bool { return vf.Bool(n) }, func(a, b bool) bool { return a == b }}
}
func anyVals() valKit[any] {
	i := 0
	return valKit[any]{func(n string) any {
		i++
		switch i % 3 {
		case 0:
			return vf.String(n, 1)
		case 1:
			return vf.Int64(n)
		}
		return vf.Bool(n)
	}, func(a, b any) bool {
		switch x := a.(type) {
		case int64:
			y, ok := b.(int64)
			return vf.And(ok, x == y)
		case string:
			y, ok := b.(string)
			if !ok {
				return false
			}
			return vf.StrEq(x, y)
		case bool:
			y, ok := b.(bool)
			return vf.And(ok, x == y)
		}
		return b == nil
	}}
}

func eqVals[V any](kit valKit[V], a, b []V) bool {
	if len(a) != len(b) {
		return false
	}
	ok := true
	for i := range a {
		ok = vf.And(ok, kit.eq(a[i], b[i]))
	}
	return ok
}

func toAny[V any](xs []V) []any {
	out := make([]any, len(xs))
	for i, x := range xs {
		out[i] = x
	}
	return out
}

// c20Sequences: kind 0 array, 1 list, 2 stack, 3 queue; form 0 []V, 1 Sequential[V], 2 source+notation first,
// 3 source+notation last, 4 []V + notation, 5 size/capacity, 6 none.
func c20Sequences[V any](kit valKit[V], n, kindform int) {
	kind, form := kindform/8, kindform%8
	if form == 7 {
		vf.Reach("end")
		return
	}
	xs := make([]V, n)
	for i := range xs {
		xs[i] = kit.fresh("x" + string(rune('0'+i)))
	}
	// what the parser would hand over for the source form: a List[any] with the same values
	parsed := col.List[any](nil).MakeFromArray(toAny(xs))
	stub := &stubNotation{parsed}
	real := mod.CDCN()
	var args []any
	switch form {
	case 0:
		args = []any{xs}
	case 1:
		args = []any{col.Sequential[V](col.List[V](nil).MakeFromArray(xs))}
	case 2:
		args = []any{stub, "source"}
	case 3:
		args = []any{"source", stub}
	case 4:
		args = []any{real, xs}
	case 5:
		args = []any{uint(n)}
	case 6:
		args = []any{}
	}
	vf.Budget(60 * listBudget)
	var got, want []V
	var gotCap, wantCap uint
	var p, wp bool
	switch kind {
	case 0:
		var g, w col.ArrayLike[V]
		p, _ = vf.Panics(func() { g = mod.Array[V](args...) })
		cls := col.Array[V](nil)
		wp, _ = vf.Panics(func() {
			switch form {
			case 0, 4:
				w = cls.MakeFromArray(xs)
			case 1:
				w = cls.MakeFromSequence(col.List[V](nil).MakeFromArray(xs))
			case 2, 3:
				w = cls.MakeFromArray(xs) // same contents and order as the parsed collection
			case 5:
				w = cls.Make(uint(n))
			case 6:
				panic("no class-level constructor without arguments")
			}
		})
		if !p && !wp {
			got, want = g.AsArray(), w.AsArray()
		}
	case 1:
		var g, w col.ListLike[V]
		p, _ = vf.Panics(func() { g = mod.List[V](args...) })
		cls := col.List[V](nil)
		wp, _ = vf.Panics(func() {
			switch form {
			case 5:
				panic("a list has no size form")
			case 6:
				w = cls.Make()
			default:
				w = cls.MakeFromArray(xs)
			}
		})
		if form == 5 {
			p, wp = true, true // not a documented form for lists: nothing to compare
		}
		if !p && !wp {
			got, want = g.AsArray(), w.AsArray()
		}
	case 2:
		var g, w col.StackLike[V]
		p, _ = vf.Panics(func() { g = mod.Stack[V](args...) })
		cls := col.Stack[V](nil)
		wp, _ = vf.Panics(func() {
			switch form {
			case 5:
				w = cls.MakeWithCapacity(uint(n))
			case 6:
				w = cls.Make()
			default:
				w = cls.MakeFromArray(xs) // the parser builds a Stack with MakeFromSequence: first value on top
			}
		})
		if !p && !wp {
			got, want = g.AsArray(), w.AsArray()
			gotCap, wantCap = g.GetCapacity(), w.GetCapacity()
		}
	case 3:
		var g, w col.QueueLike[V]
		p, _ = vf.Panics(func() { g = mod.Queue[V](args...) })
		cls := col.Queue[V](nil)
		wp, _ = vf.Panics(func() {
			switch form {
			case 5:
				w = cls.MakeWithCapacity(uint(n))
			case 6:
				w = cls.Make()
			default:
				w = cls.MakeFromArray(xs)
			}
		})
		if !p && !wp {
			got, want = g.AsArray(), w.AsArray()
			gotCap, wantCap = g.GetCapacity(), w.GetCapacity()
		}
	}
	vf.BudgetReset()
	vf.Class("array-empty-go-array", kind == 0 && n == 0 && (form == 0 || form == 4))
	vf.Class("array-size-zero", kind == 0 && n == 0 && form == 5)
	// when the class-level constructor rejects the data there is nothing to agree with
	vf.Assert("accepts-what-the-class-constructor-accepts", vf.Implies(!wp, !p))
	if !p && !wp {
		vf.Assert("same-contents-and-order", eqVals(kit, got, want))
		vf.Assert("same-capacity", gotCap == wantCap)
	}
	vf.Reach("end")
}

func VF_C20_SeqInt64(n, kf int)   { c20Sequences(i64Vals(), n, kf) }
func VF_C20_SeqUint64(n, kf int)  { c20Sequences(u64Vals(), n, kf) }
func VF_C20_SeqFloat64(n, kf int) { c20Sequences(f64Vals(), n, kf) }
func VF_C20_SeqString(n, kf int)  { c20Sequences(strVals(), n, kf) }
func VF_C20_SeqRune(n, kf int)    { c20Sequences(runeVals(), n, kf) }
func VF_C20_SeqBool(n, kf int)    { c20Sequences(boolVals(), n, kf) }
func VF_C20_SeqAny(n, kf int)     { c20Sequences(anyVals(), n, kf) }

// Sets: forms 0 []V, 1 sequence, 2 source (stub first), 3 source (stub last), 4 collator + []V, 5 collator + source, 6 none.
func VF_C20_Set(n, form int) {
	kit := i64Vals()
	xs := make([]int64, n)
	for i := range xs {
		xs[i] = kit.fresh("x" + string(rune('0'+i)))
	}
	stub := &stubNotation{col.List[any](nil).MakeFromArray(toAny(xs))}
	var collator age.CollatorLike[int64] = desc64Collator{}
	var args []any
	switch form {
	case 0:
		args = []any{xs}
	case 1:
		args = []any{col.Sequential[int64](col.List[int64](nil).MakeFromArray(xs))}
	case 2:
		args = []any{stub, "source"}
	case 3:
		args = []any{"source", stub}
	case 4:
		args = []any{collator, xs}
	case 5:
		args = []any{stub, collator, "source"}
	case 6:
		args = []any{}
	}
	vf.Budget(60 * listBudget)
	g := mod.Set[int64](args...)
	w := col.Set[int64](nil).MakeFromArray(xs)
	if form == 6 {
		w = col.Set[int64](nil).Make()
	}
	if form == 4 || form == 5 {
		// a collator passed to the constructor is the set's collator, whatever else is passed with it
		w = col.Set[int64](nil).MakeWithCollator(collator)
		for _, x := range xs {
			w.AddValue(x)
		}
		vf.Assert("given-collator-is-used", g.GetCollator() == collator)
	}
	vf.BudgetReset()
	vf.Assert("same-contents-and-order", eqVals(kit, g.AsArray(), w.AsArray()))
	vf.Reach("end")
}

// Catalog / Map: kind 0 catalog, 1 map; form 0 Go map, 1 []association, 2 sequence, 3 source (stub), 4 none.
func VF_C20_Assoc(n, kindform int) {
	kind, form := kindform/8, kindform%8
	kit := intKeys()
	ks := vf.Ints("k", n)
	vs := vf.Ints("v", n)
	for i := range ks {
		for j := i + 1; j < n; j++ {
			vf.Assume(ks[i] != ks[j])
		}
	}
	m := &omodel[int]{clone(ks), clone(vs)}
	gm := map[int]int{}
	var assocs []col.AssociationLike[int, int]
	parsed := col.Catalog[any, any](nil).Make()
	for i := range ks {
		gm[ks[i]] = vs[i]
		assocs = append(assocs, col.Association[int, int](nil).Make(ks[i], vs[i]))
		parsed.SetValue(ks[i], vs[i])
	}
	stub := &stubNotation{parsed}
	var args []any
	switch form {
	case 0:
		args = []any{gm}
	case 1:
		args = []any{assocs}
	case 2:
		args = []any{col.Sequential[col.AssociationLike[int, int]](col.List[col.AssociationLike[int, int]](nil).MakeFromArray(assocs))}
	case 3:
		args = []any{stub, "source"}
	case 4:
		args = []any{}
		m = &omodel[int]{}
	}
	vf.Budget(60 * listBudget)
	if kind == 0 {
		c := mod.Catalog[int, int](args...)
		if form == 0 {
			// a Go map has no order: compare as a mapping
			ok := c.GetSize() == n
			for i := range ks {
				ok = vf.And(ok, c.GetValue(ks[i]) == vs[i])
			}
			vf.Assert("catalog-same-associations", ok)
		} else {
			checkCatalog("catalog", kit, c, m)
		}
	} else {
		checkMap("map", kit, mod.Map[int, int](args...), m)
	}
	vf.BudgetReset()
	vf.Reach("end")
}

// Association(k, v) for several type pairs, identical ones included.
func VF_C20_Association(pair, _ int) {
	switch pair {
	case 0:
		k, v := vf.Int64("k"), vf.Int64("v")
		a := mod.Association[int64, int64](k, v)
		vf.Assert("int64-int64", vf.And(a.GetKey() == k, a.GetValue() == v))
	case 1:
		k, v := vf.String("k", 1), vf.String("v", 1)
		a := mod.Association[string, string](k, v)
		vf.Assert("string-string", vf.And(vf.StrEq(a.GetKey(), k), vf.StrEq(a.GetValue(), v)))
	case 2:
		k, v := vf.String("k", 1), vf.Int64("v")
		a := mod.Association[string, int64](k, v)
		vf.Assert("string-int64", vf.And(vf.StrEq(a.GetKey(), k), a.GetValue() == v))
	case 3:
		k, v := vf.Int64("k"), vf.String("v", 1)
		a := mod.Association[int64, string](k, v)
		vf.Assert("int64-string", vf.And(a.GetKey() == k, vf.StrEq(a.GetValue(), v)))
	case 4:
		k, v := vf.Bool("k"), vf.Bool("v")
		a := mod.Association[bool, bool](k, v)
		vf.Assert("bool-bool", vf.And(a.GetKey() == k, a.GetValue() == v))
	case 5:
		k, v := vf.Rune("k"), vf.Float64("v")
		vf.Assume(v == v)
		a := mod.Association[rune, float64](mod.CDCN(), k, v)
		vf.Assert("rune-float64-with-notation", vf.And(a.GetKey() == k, vf.SameFloat(a.GetValue(), v)))
	case 6:
		k, v := vf.Uint64("k"), vf.Uint64("v")
		a := mod.Association[uint64, uint64](k, v, mod.CDCN())
		vf.Assert("uint64-uint64-notation-last", vf.And(a.GetKey() == k, a.GetValue() == v))
	case 8: // zero values are values too
		v := vf.Int64("v")
		a := mod.Association[string, int64]("", v)
		vf.Assert("empty-string-key", vf.And(a.GetKey() == "", a.GetValue() == v))
	case 9:
		k := vf.Int64("k")
		a := mod.Association[int64, string](k, "")
		vf.Assert("empty-string-value", vf.And(a.GetKey() == k, a.GetValue() == ""))
		b := mod.Association[int64, bool](int64(0), false)
		vf.Assert("zero-key-false-value", vf.And(b.GetKey() == 0, !b.GetValue()))
	case 7:
		var k any = vf.Int64("k")
		var v any = vf.String("v", 1)
		a := mod.Association[any, any](k, v)
		vf.Assert("any-any", vf.And(a.GetKey().(int64) == k.(int64), vf.StrEq(a.GetValue().(string), v.(string))))
	}
	vf.Reach("end")
}

// Stack / Queue built by the universal constructors from n initial values, n spanning the default capacity.
func VF_C20_Capacity(n, kind int) {
	xs := make([]int64, n)
	for i := range xs {
		xs[i] = vf.Int64("x" + string(rune('a'+i)))
	}
	kit := i64Vals()
	vf.Budget(400 * listBudget)
	stub := &stubNotation{col.List[any](nil).MakeFromArray(toAny(xs))}
	if kind == 2 {
		g := mod.Stack[int64](stub, "source")
		w := col.Stack[int64](nil).MakeFromArray(xs)
		vf.Assert("stack-source-contents", eqVals(kit, g.AsArray(), w.AsArray()))
		vf.Assert("stack-source-size<=capacity", g.GetSize() <= int(g.GetCapacity()))
	} else if kind == 3 {
		g := mod.Queue[int64]("source", stub)
		w := col.Queue[int64](nil).MakeFromArray(xs)
		vf.Assert("queue-source-contents", eqVals(kit, g.AsArray(), w.AsArray()))
		vf.Assert("queue-source-capacity", g.GetCapacity() == w.GetCapacity())
	} else if kind == 0 {
		g := mod.Stack[int64](xs)
		w := col.Stack[int64](nil).MakeFromArray(xs)
		vf.Assert("stack-contents", eqVals(kit, g.AsArray(), w.AsArray()))
		vf.Assert("stack-capacity", g.GetCapacity() == w.GetCapacity())
		vf.Assert("stack-size<=capacity", g.GetSize() <= int(g.GetCapacity()))
	} else {
		g := mod.Queue[int64](xs)
		w := col.Queue[int64](nil).MakeFromArray(xs)
		vf.Assert("queue-contents", eqVals(kit, g.AsArray(), w.AsArray()))
		vf.Assert("queue-capacity", g.GetCapacity() == w.GetCapacity())
		vf.Assert("queue-size<=capacity", g.GetSize() <= int(g.GetCapacity()))
	}
	vf.BudgetReset()
	vf.Reach("end")
}

// desc64Collator: the reverse of the natural order on int64 (a custom collator handed to a constructor).
type desc64Collator struct{}

func (desc64Collator) GetClass() age.CollatorClassLike[int64] { return nil }
func (desc64Collator) CompareValues(a, b int64) bool          { return a == b }
func (desc64Collator) GetDepth() int                          { return 0 }
func (desc64Collator) GetMaximum() int                        { return 16 }
func (desc64Collator) RankValues(a, b int64) age.Rank {
	if a > b {
		return age.LesserRank
	}
	if a < b {
		return age.GreaterRank
	}
	return age.EqualRank
}
