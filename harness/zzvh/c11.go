//go:build verif

package zzvh

import (
	"strconv"

	mod "github.com/craterdog/go-collection-framework/v4"
	age "github.com/craterdog/go-collection-framework/v4/agent"
	cdc "github.com/craterdog/go-collection-framework/v4/cdcn"
	col "github.com/craterdog/go-collection-framework/v4/collection"
	vf "github.com/craterdog/go-collection-framework/v4/zzvf"
)

// ---- a tiny reference matcher for the EXPRESSION DEFINITIONS of Syntax.cdsn ----
// A language is a predicate on s[i:j]; lengths are concrete, bytes symbolic, no forking.

type lang func(s string, i, j int) bool

func lit(t string) lang {
	return func(s string, i, j int) bool {
		if j-i != len(t) {
			return false
		}
		return vf.StrEq(s[i:j], t)
	}
}

func class(p func(b byte) bool) lang {
	return func(s string, i, j int) bool {
		if j-i != 1 {
			return false
		}
		return p(s[i])
	}
}

func rng(lo, hi byte) lang {
	return class(func(b byte) bool { return vf.And(b >= lo, b <= hi) })
}

// memo caches a language's verdict per span (the combinators are exponential otherwise).
func memo(l lang) lang {
	cache := map[[2]int]bool{}
	return func(s string, i, j int) bool {
		k := [2]int{i, j}
		if v, ok := cache[k]; ok {
			return v
		}
		v := l(s, i, j)
		cache[k] = v
		return v
	}
}

func alt(ls ...lang) lang {
	return func(s string, i, j int) bool {
		r := false
		for _, l := range ls {
			r = vf.Or(r, l(s, i, j))
		}
		return r
	}
}

func seq(ls ...lang) lang {
	if len(ls) == 1 {
		return ls[0]
	}
	rest := seq(ls[1:]...)
	return func(s string, i, j int) bool {
		r := false
		for k := i; k <= j; k++ {
			r = vf.Or(r, vf.And(ls[0](s, i, k), rest(s, k, j)))
		}
		return r
	}
}

func opt(l lang) lang {
	return func(s string, i, j int) bool { return vf.Or(i == j, l(s, i, j)) }
}

// plus(l) for single-character languages l.
func plus1(l lang) lang {
	return func(s string, i, j int) bool {
		if j <= i {
			return false
		}
		r := true
		for k := i; k < j; k++ {
			r = vf.And(r, l(s, k, k+1))
		}
		return r
	}
}

func star1(l lang) lang {
	return func(s string, i, j int) bool { return vf.Or(i == j, plus1(l)(s, i, j)) }
}

func rep1(l lang, n int) lang {
	return func(s string, i, j int) bool {
		if j-i != n {
			return false
		}
		return plus1(l)(s, i, j)
	}
}

var (
	gBase10  = rng('0', '9')
	gBase16  = alt(rng('0', '9'), rng('a', 'f'))
	gSign    = alt(lit("+"), lit("-"))
	gZero    = lit("0")
	gOrdinal = memo(seq(rng('1', '9'), star1(gBase10)))
	gFrac    = memo(seq(lit("."), plus1(gBase10)))
	gScalar  = memo(seq(alt(gZero, gOrdinal), gFrac))
	gExp     = memo(seq(alt(lit("e"), lit("E")), gSign, gOrdinal))
	gFloat   = memo(seq(opt(gSign), gScalar, opt(gExp)))
	gInteger = alt(gZero, seq(opt(gSign), gOrdinal))
	gHex     = seq(lit("0x"), plus1(gBase16))
	gBoolean = alt(lit("false"), lit("true"))
	gNil     = lit("nil")
	gType    = alt(lit("Array"), lit("Catalog"), lit("List"), lit("Map"), lit("Queue"), lit("Set"), lit("Stack"))
	gDelim   = alt(lit("["), lit("]"), lit("("), lit(")"), lit(":"), lit(","))
	gComplex = seq(lit("("), gFloat, gSign, gFloat, lit("i)"))
	// printable ASCII that is neither a quote nor a backslash (the unescaped characters both grammars agree on)
	gPlain = class(func(b byte) bool {
		return vf.And(vf.And(b >= 0x20, b <= 0x7e), vf.And(b != '"', vf.And(b != '\'', b != '\\')))
	})
	gUnicode = alt(seq(lit("x"), rep1(gBase16, 2)), seq(lit("u"), rep1(gBase16, 4)), seq(lit("U"), rep1(gBase16, 8)))
	gEscape  = seq(lit("\\"), alt(gUnicode, class(func(b byte) bool {
		r := false
		for _, c := range []byte("abfnrtv'\"\\") {
			r = vf.Or(r, b == c)
		}
		return r
	})))
	gRune = seq(lit("'"), alt(gPlain, lit("\"")), lit("'"))
)

func gStringBody(s string, i, j int) bool {
	// (ESCAPE | plain | ')* by dynamic programming over positions
	ok := make([]bool, j-i+1)
	ok[0] = true
	for e := 1; e <= j-i; e++ {
		r := false
		for st := 0; st < e; st++ {
			piece := alt(gPlain, lit("'"), gEscape)(s, i+st, i+e)
			r = vf.Or(r, vf.And(ok[st], piece))
		}
		ok[e] = r
	}
	return ok[j-i]
}

var gString = func(s string, i, j int) bool {
	if j-i < 2 {
		return false
	}
	return vf.And(vf.And(s[i] == '"', s[j-1] == '"'), gStringBody(s, i+1, j-1))
}

var c11tokens = []struct {
	t cdc.TokenType
	l lang
}{
	{cdc.BooleanToken, gBoolean}, {cdc.ComplexToken, gComplex}, {cdc.DelimiterToken, gDelim}, {cdc.FloatToken, gFloat},
	{cdc.HexadecimalToken, gHex}, {cdc.IntegerToken, gInteger}, {cdc.NilToken, gNil}, {cdc.RuneToken, gRune},
	{cdc.StringToken, gString}, {cdc.TypeToken, gType},
}

// VF_C11_Lexical: every string of n bytes in the reference language of a token type scans as exactly that token.
func VF_C11_Lexical(n, tok int) {
	s := vf.String("s", n)
	vf.Reach("may-be-vacuous") // not every token language has a word of every length
	vf.Assume(c11tokens[tok].l(s, 0, n))
	vf.Budget(8000000)
	q := col.Queue[cdc.TokenLike](nil).MakeWithCapacity(uint(n + 2))
	cdc.Scanner().Make(s, q)
	vf.Quiesce()
	toks := q.AsArray()
	vf.BudgetReset()
	vf.Assert("one-token-then-eof", len(toks) == 2)
	if len(toks) == 2 {
		vf.Assert("token-type", toks[0].GetType() == c11tokens[tok].t)
		vf.Assert("token-text", vf.StrEq(toks[0].GetValue(), s))
		vf.Assert("then-eof", toks[1].GetType() == cdc.EOFToken)
	}
	vf.Reach("end")
}

// ---- sentences: the seven type contexts around inline / multi-line / empty item lists ----

var c11types = []string{"Array", "Catalog", "List", "Map", "Queue", "Set", "Stack"}

func seqOf(v any) ([]any, bool) {
	s, ok := v.(col.Sequential[any])
	if !ok {
		return nil, false
	}
	return s.AsArray(), true
}

func kindOK(v any, t string) bool {
	switch t {
	case "Array":
		_, ok := v.(col.ArrayLike[any])
		return ok
	case "List":
		_, ok := v.(col.ListLike[any])
		return ok
	case "Queue":
		_, ok := v.(col.QueueLike[any])
		return ok
	case "Set":
		_, ok := v.(col.SetLike[any])
		return ok
	case "Stack":
		_, ok := v.(col.StackLike[any])
		return ok
	case "Catalog":
		_, ok := v.(col.CatalogLike[any, any])
		return ok
	case "Map":
		_, ok := v.(col.MapLike[any, any])
		return ok
	}
	return false
}

// VF_C11_Values: [d1, d2, ...] with n symbolic one- or two-digit integers, inline (form 0) or multi-line (form 1),
// in each of the five value contexts; with trailing EOLs.
func VF_C11_Values(n, tf int) {
	t, form := c11types[[]int{0, 2, 4, 5, 6}[tf%5]], tf/5
	exp := make([]int64, n)
	src := "["
	if n == 0 {
		src += " "
	}
	for i := 0; i < n; i++ {
		d1, d2 := vf.Byte("d"+string(rune('0'+i))), vf.Byte("e"+string(rune('0'+i)))
		vf.Assume(vf.And(d1 >= '1', d1 <= '9'))
		vf.Assume(vf.And(d2 >= '0', d2 <= '9'))
		exp[i] = int64(d1-'0')*10 + int64(d2-'0')
		lit := string([]byte{d1, d2})
		if i%2 == 1 {
			lit = "-" + lit
			exp[i] = -exp[i]
		}
		if form == 0 {
			if i > 0 {
				src += ", "
			}
			src += lit
		} else {
			src += "\n    " + lit
		}
	}
	if form == 1 && n > 0 {
		src += "\n"
	}
	src += "](" + t + ")\n\n"
	vf.Budget(8000000)
	v := mod.ParseSource(src)
	vf.BudgetReset()
	vf.Assert("kind-of-type-context", kindOK(v, t))
	got, ok := seqOf(v)
	vf.Assert("is-a-sequence", ok)
	if t == "Set" {
		// ordered and de-duplicated
		var want []int64
		for _, x := range exp {
			want = append(want, x)
		}
		asc, all := true, true
		for i := 0; i+1 < len(got); i++ {
			asc = vf.And(asc, got[i].(int64) < got[i+1].(int64))
		}
		for _, x := range want {
			m := false
			for _, g := range got {
				m = vf.Or(m, g.(int64) == x)
			}
			all = vf.And(all, m)
		}
		vf.Assert("set-ordered-deduplicated", vf.And(asc, all))
	} else {
		okv := len(got) == n
		if okv {
			for i := range got {
				g, isInt := got[i].(int64)
				okv = vf.And(okv, vf.And(isInt, g == exp[i]))
			}
		}
		vf.Assert("values-in-source-order", okv)
	}
	vf.Assert("no-goroutine-left", vf.Quiesce() == 0)
	vf.Reach("end")
}

// VF_C11_Associations: n associations with symbolic one-letter string keys (may repeat) and digit values,
// inline / multi-line, Catalog or Map context: first position, last value.
func VF_C11_Associations(n, tf int) {
	t, form := []string{"Catalog", "Map"}[tf%2], tf/2
	keys := make([]string, n)
	vals := make([]int64, n)
	src := "["
	if n == 0 {
		src += ":"
	}
	for i := 0; i < n; i++ {
		k, d := vf.Byte("k"+string(rune('0'+i))), vf.Byte("d"+string(rune('0'+i)))
		vf.Assume(vf.And(k >= 'a', k <= 'z'))
		vf.Assume(vf.And(d >= '0', d <= '9'))
		keys[i] = string([]byte{k})
		vals[i] = int64(d - '0')
		item := "\"" + keys[i] + "\": " + string([]byte{d})
		if form == 0 {
			if i > 0 {
				src += ", "
			}
			src += item
		} else {
			src += "\n    " + item
		}
	}
	if form == 1 && n > 0 {
		src += "\n"
	}
	src += "](" + t + ")\n"
	vf.Budget(8000000)
	v := mod.ParseSource(src)
	vf.BudgetReset()
	vf.Assert("kind-of-type-context", kindOK(v, t))
	// model: first position, last value
	var mk []string
	var mv []int64
	for i := range keys {
		p := -1
		for j := range mk {
			if vf.StrEq(mk[j], keys[i]) {
				p = j
			}
		}
		if p >= 0 {
			mv[p] = vals[i]
		} else {
			mk, mv = append(mk, keys[i]), append(mv, vals[i])
		}
	}
	if t == "Catalog" {
		c := v.(col.CatalogLike[any, any])
		arr := c.AsArray()
		ok := len(arr) == len(mk)
		if ok {
			for i := range arr {
				ks, isS := arr[i].GetKey().(string)
				vi, isI := arr[i].GetValue().(int64)
				ok = vf.And(ok, vf.And(vf.And(isS, isI), vf.And(vf.StrEq(ks, mk[i]), vi == mv[i])))
			}
		}
		vf.Assert("catalog-first-position-last-value", ok)
	} else {
		m := v.(col.MapLike[any, any])
		ok := m.GetSize() == len(mk)
		for i := range mk {
			vi, isI := m.GetValue(mk[i]).(int64)
			ok = vf.And(ok, vf.And(isI, vi == mv[i]))
		}
		vf.Assert("map-last-value-wins", ok)
	}
	vf.Reach("end")
}

// VF_C11_Literals: boundary and special literal forms evaluate with standard Go semantics.
var c11lits = []struct {
	text string
	want any
}{
	{"true", true}, {"false", false}, {"nil", nil}, {"0", int64(0)}, {"+7", int64(7)}, {"-7", int64(-7)},
	{"9223372036854775807", int64(9223372036854775807)}, {"-9223372036854775808", int64(-9223372036854775808)},
	{"0x0", uint64(0)}, {"0xffffffffffffffff", uint64(0xffffffffffffffff)}, {"0x8000000000000000", uint64(0x8000000000000000)},
	{"1.5", float64(1.5)}, {"-0.25", float64(-0.25)}, {"1.5e+7", float64(1.5e+7)}, {"1.5E-10", float64(1.5e-10)}, {"1.0e+100", float64(1e100)},
	{"0.0", float64(0)}, {"(0.1+0.2i)", complex(0.1, 0.2)}, {"(16777217.0-1.1E+100i)", complex(16777217.0, -1.1e+100)}, {"0.1", float64(0.1)}, {"(1.0+2.0i)", complex(1, 2)}, {"(-1.5e+2-0.5i)", complex(-150, -0.5)},
	{"'a'", 'a'}, {"'\"'", '"'}, {"'\\n'", '\n'}, {"'\\\\'", '\\'}, {"'\\''", '\''}, {"'\\x41'", 'A'}, {"'\\u00e9'", 'é'}, {"'\\U0001f600'", rune(0x1f600)},
	{"\"\"", ""}, {"\"a'b\"", "a'b"}, {"\"a\\\"b\"", "a\"b"}, {"\"\\t\\\\\"", "\t\\"}, {"\"\\u00e9\\U0001f600\\x41\"", "é\U0001f600A"},
}

func VF_C11_Literals(i, ctx int) {
	t := c11types[[]int{0, 2, 4, 6}[ctx%4]]
	src := "[" + c11lits[i].text + "](" + t + ")\n"
	vf.Budget(8000000)
	v := mod.ParseSource(src)
	vf.BudgetReset()
	got, ok := seqOf(v)
	vf.Assert("one-value", ok && len(got) == 1)
	if ok && len(got) == 1 {
		k := age.Collator[any]().Make()
		vf.Assert("literal-value-"+c11lits[i].text, k.CompareValues(got[0], c11lits[i].want))
	}
	vf.Reach("end")
}

// VF_C11_Unrepresentable: literals the scanner accepts but that cannot be represented exactly must be rejected.
var c11bad = []string{
	"9223372036854775808", "-9223372036854775809", "99999999999999999999", "0x10000000000000000", "0xfffffffffffffffff",
	"\"a\\'b\"", "'\\\"'", "'\\ud800'", "\"\\ud800\"", "\"\\U00110000\"", "1.0e+400", "(1.0e+400+1.0i)",
}

func VF_C11_Unrepresentable(i, _ int) {
	src := "[" + c11bad[i] + "](List)\n"
	var v any
	vf.Budget(8000000)
	p, rt := vf.Panics(func() { v = mod.ParseSource(src) })
	vf.BudgetReset()
	vf.Assert("rejected-not-silently-altered", p)
	vf.Assert("rejected-with-diagnostic-not-runtime-error", !rt)
	_ = v
	vf.Reach("end")
}

// VF_C11_Nested: collections as values and as association values, every type context inside every other.
func VF_C11_Nested(outer, inner int) {
	to, ti := c11types[outer], c11types[inner]
	b := vf.Byte("d")
	vf.Assume(vf.And(b >= '0', b <= '9'))
	item := string([]byte{b})
	in := "[" + item + "](" + ti + ")"
	if ti == "Catalog" || ti == "Map" {
		in = "[\"k\": " + item + "](" + ti + ")"
	}
	src := "[" + in + ", " + in + "](" + to + ")\n"
	if to == "Catalog" || to == "Map" {
		src = "[1: " + in + ", 2: " + in + "](" + to + ")\n"
	}
	vf.Budget(12000000)
	v := mod.ParseSource(src)
	vf.BudgetReset()
	vf.Assert("outer-kind", kindOK(v, to))
	var first any
	switch c := v.(type) {
	case col.CatalogLike[any, any]:
		first = c.GetValue(int64(1))
	case col.MapLike[any, any]:
		first = c.GetValue(int64(1))
	default:
		got, _ := seqOf(v)
		if len(got) > 0 {
			first = got[0]
		}
	}
	vf.Assert("inner-kind", kindOK(first, ti))
	vf.Reach("end")
}

// VF_C11_Schedules: the parse result does not depend on how scanner and parser goroutines interleave
// (all interleavings at synchronisation operations up to a bound; see plan: schedChoice).
func VF_C11_Schedules(i, _ int) {
	srcs := []string{"[1](List)\n", "[:](Map)\n", "[1, 2](Set)\n", "[\n    1\n](Queue)\n", "[(", "[1 2](List)\n"}
	src := srcs[i]
	var v any
	p, rt, msg := vf.PanicText(func() { v = mod.ParseSource(src) })
	vf.Assert("no-runtime-error", !rt)
	switch i {
	case 0, 3:
		got, ok := seqOf(v)
		vf.Assert("same-result", !p && ok && len(got) == 1 && got[0].(int64) == 1)
	case 1:
		m, ok := v.(col.MapLike[any, any])
		vf.Assert("same-result", !p && ok && m.GetSize() == 0)
	case 2:
		got, ok := seqOf(v)
		vf.Assert("same-result", !p && ok && len(got) == 2 && got[0].(int64) == 1 && got[1].(int64) == 2)
	default:
		vf.Assert("same-diagnostic", p && len(msg) > 20 && msg[:20] == "An unexpected token ")
	}
	vf.Assert("no-goroutine-left", vf.Quiesce() == 0)
	vf.Reach("end")
}

// VF_C11_LongTokens: a single literal much longer than any internal buffer or queue capacity is still one
// token with its exact value.  kind 0: a quoted string of c11long[i] characters, two of them symbolic
// (printable ASCII other than the quote and the backslash); kind 1: a float with that many fraction digits.
var c11long = []int{40, 200, 254, 255, 256, 257, 300, 520, 1100}

func VF_C11_LongTokens(i, kind int) {
	L := c11long[i]
	vf.Budget(60000000)
	if kind == 0 {
		x, y := vf.Byte("x"), vf.Byte("y")
		ok := func(b byte) bool { return vf.And(vf.And(b >= ' ', b <= '~'), vf.And(b != '"', b != '\\')) }
		vf.Assume(vf.And(ok(x), ok(y)))
		body := make([]byte, L)
		for k := range body {
			body[k] = 'a' + byte(k%26)
		}
		body[L/2] = x
		body[L-1] = y
		content := string(body)
		src := "[\"" + content + "\"](List)\n"
		var v any
		p, _ := vf.Panics(func() { v = mod.ParseSource(src) })
		vf.Assert("long-string-accepted", !p)
		if !p {
			got, isSeq := seqOf(v)
			vf.Assert("one-value", isSeq && len(got) == 1)
			if isSeq && len(got) == 1 {
				s, isStr := got[0].(string)
				vf.Assert("long-string-value", isStr && vf.StrEq(s, content))
			}
		}
	} else {
		digits := make([]byte, L)
		for k := range digits {
			digits[k] = '0' + byte((k*7+3)%10)
		}
		text := "0." + string(digits)
		src := "[" + text + "](List)\n"
		var v any
		p, _ := vf.Panics(func() { v = mod.ParseSource(src) })
		// a float that long cannot be represented exactly: the parser may reject it (with a diagnostic), but
		// if it accepts it the result is one value, the correctly rounded float
		if !p {
			got, isSeq := seqOf(v)
			vf.Assert("one-value", isSeq && len(got) == 1)
			if isSeq && len(got) == 1 {
				f, isF := got[0].(float64)
				want, _ := strconv.ParseFloat(text, 64)
				vf.Assert("long-float-value", isF && f == want)
			}
		}
	}
	vf.BudgetReset()
	vf.Reach("end")
}

// VF_C11_Reuse: a parser instance that has already been used - for an accepted text, or for a text it
// rejected (c12bad[i], valid tokens in invalid orders leave tokens pushed back) - accepts the valid document
// c12docs[j] with the same result as a fresh parser.
func VF_C11_Reuse(i, j int) {
	good := c12docs[j]
	vf.Budget(30000000)
	want := mod.FormatValue(mod.ParseSource(good))
	p := cdc.Parser().Make()
	first := "[1, 2](List)\n"
	if i < len(c12bad) {
		first = c12bad[i]
	}
	p1, _ := vf.Panics(func() { p.ParseSource(first) })
	var v any
	pn, rt := vf.Panics(func() { v = p.ParseSource(good) })
	vf.Assert("valid-text-accepted-by-a-used-parser", !pn)
	vf.Assert("no-runtime-error-from-a-used-parser", !rt)
	if !pn {
		vf.Assert("same-result-as-a-fresh-parser", mod.FormatValue(v) == want)
	}
	// and the first text gets the same verdict from the used parser as it got from the fresh one
	p2, rt2 := vf.Panics(func() { p.ParseSource(first) })
	vf.Assert("same-verdict-again", vf.And(p2 == p1, !rt2))
	vf.BudgetReset()
	vf.Assert("no-goroutine-left", vf.Quiesce() == 0)
	vf.Reach("end")
}
