//go:build verif

package zzvh

import (
	"sync"

	mod "github.com/craterdog/go-collection-framework/v4"
	age "github.com/craterdog/go-collection-framework/v4/agent"
	col "github.com/craterdog/go-collection-framework/v4/collection"
	vf "github.com/craterdog/go-collection-framework/v4/zzvf"
)

// famOp returns one operation of a family on instances of its own (created here, before the
// parallel section).  composite selects element type []int (exercises the collator's depth counter).
func famOp(fam int, composite bool, tag string) func() {
	mk := func(n int) [][]int {
		out := make([][]int, n)
		for i := range out {
			out[i] = []int{3 - i}
		}
		return out
	}
	if !composite {
		xs := []int{3, 1, 2} // contents concrete; one symbolic value keeps the paths input dependent
		v := vf.Int(tag + "v")
		if fam == 5 {
			v = 7
		}
		l := mod.List[int](clone(xs))
		s := mod.Set[int](clone(xs))
		c := mod.Catalog[int, int](map[int]int{1: xs[0]})
		sh := mod.List[int]([]int{1, 2})
		switch fam {
		case 0:
			return func() {
				mod.List[int](clone(xs))
				mod.Set[int](clone(xs))
				mod.Stack[int](clone(xs))
				mod.Queue[int](clone(xs))
				mod.Array[int](clone(xs))
				mod.Catalog[int, int](map[int]int{1: v})
				mod.Map[int, int](map[int]int{1: v})
			}
		case 1:
			return func() {
				l.AppendValue(v)
				l.InsertValue(0, v)
				l.RemoveValue(1)
				s.AddValue(v)
				c.SetValue(2, v)
				c.RemoveValue(1)
			}
		case 2:
			return func() { l.GetIndex(v); l.ContainsValue(v); s.ContainsValue(v); s.GetIndex(v) }
		case 3:
			return func() {
				l.SortValues()
				l.ReverseValues()
				age.Sorter[int]().Make().SortValues(l.AsArray())
				sh.ShuffleValues() // two values: one random draw
			}
		case 4:
			k := age.Collator[int]().Make()
			ka := age.Collator[any]().Make()
			// a Go type this party is the first to collate (the warm-up parties "w" and "x" use types of their own)
			var fresh1, fresh2 any
			switch tag {
			case "a":
				fresh1, fresh2 = []c19intA{1}, []c19intA{2}
			case "b":
				fresh1, fresh2 = []c19intB{1}, []c19intB{2}
			case "w":
				fresh1, fresh2 = []c19intW{1}, []c19intW{2}
			default:
				fresh1, fresh2 = []c19intX{1}, []c19intX{2}
			}
			return func() {
				k.RankValues(xs[0], v)
				k.CompareValues(xs[1], v)
				ka.CompareValues(fresh1, fresh2)
				ka.RankValues(fresh1, fresh2)
			}
		case 5:
			return func() { _ = any(l).(interface{ String() string }).String(); _ = mod.FormatValue(s) }
		case 6:
			return func() { mod.ParseSource("[1, 2](List)\n") }
		case 7:
			return func() {
				it := l.GetIterator()
				for it.HasNext() {
					it.GetNext()
				}
				it.ToStart()
			}
		}
	}
	xs := mk(3)
	v := vf.Ints(tag+"v", 1)
	if fam == 5 {
		v = []int{7}
	}
	l := mod.List[[]int](append([][]int{}, xs...))
	s := mod.Set[[]int](append([][]int{}, xs...))
	sh := mod.List[[]int](append([][]int{}, xs[:2]...))
	switch fam {
	case 0:
		return func() { mod.List[[]int](append([][]int{}, xs...)); mod.Set[[]int](append([][]int{}, xs...)) }
	case 1:
		return func() { l.AppendValue(v); l.RemoveValue(1); s.AddValue(v); s.RemoveValue(v) }
	case 2:
		return func() { l.GetIndex(v); s.ContainsValue(v) }
	case 3:
		return func() {
			l.SortValues()
			age.Sorter[[]int]().Make().SortValues(l.AsArray())
			sh.ShuffleValues()
		}
	case 4:
		k := age.Collator[[]int]().Make()
		return func() { k.RankValues(xs[0], v); k.CompareValues(xs[1], v) }
	case 5:
		return func() { _ = any(l).(interface{ String() string }).String(); _ = mod.FormatValue(s) }
	case 6:
		return func() { mod.ParseSource("[[1](List), [2](List)](List)\n") }
	}
	return func() {
		it := l.GetIterator()
		for it.HasNext() {
			it.GetNext()
		}
	}
}

// VF_C19_Pairs: operation families fa, fb (0..7 primitive elements, 8..15 composite) on disjoint instances.
func VF_C19_Pairs(fa, fb int) {
	// make sure every class already exists: first-use registration is the subject of VF_C19_Classes
	famOp(fa%8, fa >= 8, "w")()
	famOp(fb%8, fb >= 8, "x")()
	f := famOp(fa%8, fa >= 8, "a")
	g := famOp(fb%8, fb >= 8, "b")
	vf.Budget(60000000)
	vf.Par(f, g)
	vf.BudgetReset()
	vf.Assert("no-interference-between-distinct-instances", vf.Interference() == 0)
	vf.Reach("end")
}

type c19intA int
type c19intB int
type c19intW int
type c19intX int

type c19tagA struct{ X int }
type c19tagB struct{ Y int }

// VF_C19_Classes: two goroutines ask for class accessors at the same time (same or different
// type parameters, never used before): both get the one class of the type, with no race.
func VF_C19_Classes(acc, same int) {
	vf.Track(0) // switch the access log on: every access of the two goroutines below is recorded with its lockset
	var r [2]any
	get := func(i int, second bool) {
		switch acc {
		case 0:
			if second && same == 0 {
				r[i] = col.List[c19tagB](nil)
			} else {
				r[i] = col.List[c19tagA](nil)
			}
		case 1:
			if second && same == 0 {
				r[i] = age.Sorter[c19tagB]()
			} else {
				r[i] = age.Sorter[c19tagA]()
			}
		case 2:
			if second && same == 0 {
				r[i] = age.Collator[c19tagB]()
			} else {
				r[i] = age.Collator[c19tagA]()
			}
		case 3:
			if second && same == 0 {
				r[i] = col.Set[c19tagB](nil)
			} else {
				r[i] = col.Set[c19tagA](nil)
			}
		case 4:
			if second && same == 0 {
				r[i] = col.Catalog[int, c19tagB](nil)
			} else {
				r[i] = col.Catalog[int, c19tagA](nil)
			}
		case 5:
			if second && same == 0 {
				r[i] = age.Iterator[c19tagB]()
			} else {
				r[i] = age.Iterator[c19tagA]()
			}
		case 6:
			if second && same == 0 {
				r[i] = col.Queue[c19tagB](nil)
			} else {
				r[i] = col.Queue[c19tagA](nil)
			}
		}
	}
	var wg sync.WaitGroup
	wg.Add(2)
	go func() { defer wg.Done(); get(0, false) }()
	go func() { defer wg.Done(); get(1, true) }()
	wg.Wait()
	if same == 1 {
		vf.Assert("one-class-per-type", r[0] == r[1])
	} else {
		vf.Assert("different-types-different-classes", r[0] != r[1])
	}
	vf.Assert("no-interference-on-the-class-registry", vf.InterferenceG() == 0)
	vf.Reach("end")
}

// VF_C19_CrossClasses: two goroutines use *different* class accessors for the first time at the same moment
// (a for one new type, b for another): every registry is guarded by its own lock, no access without one.
func VF_C19_CrossClasses(a, b int) {
	get := func(kind int, second bool) any {
		if !second {
			switch kind {
			case 0:
				return col.List[c19tagA](nil)
			case 1:
				return age.Sorter[c19tagA]()
			case 2:
				return age.Collator[c19tagA]()
			case 3:
				return col.Set[c19tagA](nil)
			case 4:
				return col.Catalog[int, c19tagA](nil)
			case 5:
				return age.Iterator[c19tagA]()
			case 6:
				return col.Queue[c19tagA](nil)
			case 7:
				return col.Stack[c19tagA](nil)
			case 8:
				return col.Array[c19tagA](nil)
			}
			return col.Map[int, c19tagA](nil)
		}
		switch kind {
		case 0:
			return col.List[c19tagB](nil)
		case 1:
			return age.Sorter[c19tagB]()
		case 2:
			return age.Collator[c19tagB]()
		case 3:
			return col.Set[c19tagB](nil)
		case 4:
			return col.Catalog[int, c19tagB](nil)
		case 5:
			return age.Iterator[c19tagB]()
		case 6:
			return col.Queue[c19tagB](nil)
		case 7:
			return col.Stack[c19tagB](nil)
		case 8:
			return col.Array[c19tagB](nil)
		}
		return col.Map[int, c19tagB](nil)
	}
	vf.Track(0) // switch the access log on
	var r [2]any
	var wg sync.WaitGroup
	wg.Add(2)
	go func() { defer wg.Done(); r[0] = get(a, false) }()
	go func() { defer wg.Done(); r[1] = get(b, true) }()
	wg.Wait()
	vf.Assert("both-classes-exist", r[0] != nil && r[1] != nil)
	vf.Assert("no-interference-on-the-class-registries", vf.InterferenceG() == 0)
	vf.Reach("end")
}

// VF_C19_ClassIdentity: an accessor returns the one class of its type parameters every time - also for interface
// type parameters (any, error, a collection interface), with other instantiations requested in between.
func VF_C19_ClassIdentity(kind, _ int) {
	type stringer interface{ String() string }
	get := func(which int) any {
		switch kind {
		case 0:
			return [...]any{col.List[any](nil), col.List[error](nil), col.List[stringer](nil), col.List[int](nil)}[which]
		case 1:
			return [...]any{age.Sorter[any](), age.Sorter[error](), age.Sorter[stringer](), age.Sorter[int]()}[which]
		case 2:
			return [...]any{age.Collator[any](), age.Collator[error](), age.Collator[stringer](), age.Collator[int]()}[which]
		case 3:
			return [...]any{col.Set[any](nil), col.Set[error](nil), col.Set[stringer](nil), col.Set[int](nil)}[which]
		case 4:
			return [...]any{col.Catalog[int, any](nil), col.Catalog[int, error](nil), col.Catalog[any, int](nil), col.Catalog[int, int](nil)}[which]
		case 5:
			return [...]any{age.Iterator[any](), age.Iterator[error](), age.Iterator[stringer](), age.Iterator[int]()}[which]
		case 6:
			return [...]any{col.Queue[any](nil), col.Queue[error](nil), col.Queue[stringer](nil), col.Queue[int](nil)}[which]
		case 7:
			return [...]any{col.Stack[any](nil), col.Stack[error](nil), col.Stack[stringer](nil), col.Stack[int](nil)}[which]
		case 8:
			return [...]any{col.Array[any](nil), col.Array[error](nil), col.Array[stringer](nil), col.Array[int](nil)}[which]
		}
		return [...]any{col.Map[int, any](nil), col.Map[int, error](nil), col.Map[any, int](nil), col.Map[int, int](nil)}[which]
	}
	var first [4]any
	for w := 0; w < 4; w++ {
		first[w] = get(w)
	}
	for w := 0; w < 4; w++ {
		vf.Assert("same-class-on-every-call", get(w) == first[w])
		for o := 0; o < w; o++ {
			vf.Assert("different-type-parameters-different-classes", first[w] != first[o])
		}
	}
	vf.Reach("end")
}
