//go:build verif

package zzvh

import (
	age "github.com/craterdog/go-collection-framework/v4/agent"
	vf "github.com/craterdog/go-collection-framework/v4/zzvf"
)

// VF_C17_Step: one move of an iterator from an arbitrary cursor position over
// symbolic contents of size n.
func VF_C17_Step(n int, op int) {
	xs := vf.Ints("xs", n)
	it := age.Iterator[int]().MakeFromArray(xs)
	s0 := vf.Int("slot0")
	vf.Assume(vf.And(s0 >= 0, s0 <= n))
	it.ToSlot(s0)
	vf.Assert("toslot-nonneg-exact", it.GetSlot() == s0)
	switch op {
	case 0: // GetNext
		v := it.GetNext()
		if s0 < n {
			vf.Assert("next-value", v == xs[vf.Concrete(s0, 0, n-1)])
			vf.Assert("next-moves", it.GetSlot() == s0+1)
		} else {
			vf.Assert("next-end-zero", v == 0)
			vf.Assert("next-end-stays", it.GetSlot() == s0)
		}
	case 1: // GetPrevious
		v := it.GetPrevious()
		if s0 > 0 {
			vf.Assert("prev-value", v == xs[vf.Concrete(s0, 1, n)-1])
			vf.Assert("prev-moves", it.GetSlot() == s0-1)
		} else {
			vf.Assert("prev-start-zero", v == 0)
			vf.Assert("prev-start-stays", it.GetSlot() == s0)
		}
	case 2: // Has*
		vf.Assert("hasnext", it.HasNext() == (s0 < n))
		vf.Assert("hasprev", it.HasPrevious() == (s0 > 0))
		vf.Assert("size", it.GetSize() == n)
		vf.Assert("empty", it.IsEmpty() == (n == 0))
	case 3: // ToSlot(k), arbitrary 64-bit k
		k := vf.Int("k")
		it.ToSlot(k)
		s := it.GetSlot()
		vf.Assert("slot-in-range", vf.And(s >= 0, s <= n))
		vf.Assert("toslot-pos", vf.Implies(vf.And(k >= 0, k <= n), s == k))
		vf.Assert("toslot-clamp-hi", vf.Implies(k > n, s == n))
		vf.Assert("toslot-neg", vf.Implies(vf.And(k < 0, k >= -n), s == k+n+1))
		it2 := age.Iterator[int]().MakeFromArray(xs)
		it2.ToSlot(-n)
		vf.Assert("toslot-clamp-lo", vf.Implies(k < -n, s == it2.GetSlot()))
	case 4: // ToStart / ToEnd
		it.ToStart()
		vf.Assert("tostart", it.GetSlot() == 0)
		it.ToEnd()
		vf.Assert("toend", it.GetSlot() == n)
	case 5: // inverse pair
		if s0 < n {
			a := it.GetNext()
			b := it.GetPrevious()
			vf.Assert("next-prev-same", a == b)
			vf.Assert("next-prev-restores", it.GetSlot() == s0)
		}
	}
	vf.Reach("end")
}
