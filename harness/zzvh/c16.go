//go:build verif

package zzvh

import (
	col "github.com/craterdog/go-collection-framework/v4/collection"
	vf "github.com/craterdog/go-collection-framework/v4/zzvf"
)

func catalogOf(prefix string, n int) (col.CatalogLike[int, int], *omodel[int]) {
	kit := intKeys()
	m := &omodel[int]{}
	c := col.Catalog[int, int](nil).Make()
	for i := 0; i < n; i++ {
		k := vf.Int(prefix + "k" + string(rune('0'+i)))
		for _, o := range m.ks {
			vf.Assume(!kit.eq(o, k))
		}
		v := vf.Int(prefix + "v" + string(rune('0'+i)))
		c.SetValue(k, v)
		m.ks, m.vs = append(m.ks, k), append(m.vs, v)
	}
	return c, m
}

func (m *omodel[K]) clone() *omodel[K] {
	return &omodel[K]{append([]K{}, m.ks...), append([]int{}, m.vs...)}
}

// VF_C16_Merge: sizes a,b; keys of b may coincide with keys of a (solver's choice).
func VF_C16_Merge(na, nb int) {
	kit := intKeys()
	vf.Budget(40 * listBudget)
	A, ma := catalogOf("a", na)
	B, mb := catalogOf("b", nb)
	R := col.Catalog[int, int](nil).Merge(A, B)
	// model: a's keys in a's order (b's value wins), then b's new keys in b's order
	mr := ma.clone()
	for i, k := range mb.ks {
		if p := mr.find(kit, k); p >= 0 {
			mr.vs[p] = mb.vs[i]
		} else {
			mr.ks, mr.vs = append(mr.ks, k), append(mr.vs, mb.vs[i])
		}
	}
	checkCatalog("merge-result", kit, R, mr)
	checkCatalog("merge-first-unchanged", kit, A, ma)
	checkCatalog("merge-second-unchanged", kit, B, mb)
	// no shared mutable state: writing through the result does not reach the operands, and vice versa
	nv := vf.Int("nv")
	for _, k := range mr.ks {
		R.SetValue(k, nv)
	}
	R.RemoveValue(vf.Int("rk"))
	checkCatalog("first-unaffected-by-result", kit, A, ma)
	checkCatalog("second-unaffected-by-result", kit, B, mb)
	R2 := col.Catalog[int, int](nil).Merge(A, B)
	for _, k := range ma.ks {
		A.SetValue(k, nv)
	}
	for _, k := range mb.ks {
		B.SetValue(k, nv)
	}
	A.RemoveAll()
	checkCatalog("result-unaffected-by-operands", kit, R2, mr)
	vf.BudgetReset()
	vf.Reach("end")
}

// The same catalog passed for both operands.
func VF_C16_MergeSelf(n, _ int) {
	kit := intKeys()
	vf.Budget(40 * listBudget)
	A, ma := catalogOf("a", n)
	R := col.Catalog[int, int](nil).Merge(A, A)
	checkCatalog("merge-self-result", kit, R, ma)
	checkCatalog("merge-self-operand-unchanged", kit, A, ma)
	nv := vf.Int("nv")
	for _, k := range ma.ks {
		R.SetValue(k, nv)
	}
	checkCatalog("merge-self-operand-unaffected", kit, A, ma)
	vf.BudgetReset()
	vf.Reach("end")
}

// VF_C16_Extract: catalog of size n, key sequence of m symbolic keys (present, absent, repeated).
func VF_C16_Extract(n, m int) {
	kit := intKeys()
	vf.Budget(40 * listBudget)
	C, mc := catalogOf("c", n)
	keys := vf.Ints("q", m)
	R := col.Catalog[int, int](nil).Extract(C, col.List[int](nil).MakeFromArray(keys))
	mr := &omodel[int]{}
	absent := false
	for _, q := range keys {
		p := mc.find(kit, q)
		if p < 0 {
			absent = true
			continue
		}
		if mr.find(kit, q) < 0 {
			mr.ks, mr.vs = append(mr.ks, q), append(mr.vs, mc.vs[p])
		}
	}
	vf.Class("some-requested-key-absent", absent)
	checkCatalog("extract-result", kit, R, mr)
	checkCatalog("extract-operand-unchanged", kit, C, mc)
	nv := vf.Int("nv")
	for _, k := range mr.ks {
		R.SetValue(k, nv)
	}
	checkCatalog("extract-operand-unaffected-by-result", kit, C, mc)
	vf.BudgetReset()
	vf.Reach("end")
}

// VF_C16_Concatenate: purity and independence of List.Concatenate (the result law itself is also in C01).
func VF_C16_Concatenate(na, nb int) {
	xs := vf.Ints("a", na)
	ys := vf.Ints("b", nb)
	vf.Budget(40 * listBudget)
	A, B := newList(xs), newList(ys)
	cls := col.List[int](nil)
	R := cls.Concatenate(A, B)
	vf.Assert("concatenate-result", eqInts(R.AsArray(), cat(xs, ys)))
	v := vf.Int("v")
	R.AppendValue(v)
	if na+nb > 0 {
		R.SetValue(1, v)
		R.SetValue(-2, v)
	}
	vf.Assert("first-unaffected-by-result", eqInts(A.AsArray(), xs))
	vf.Assert("second-unaffected-by-result", eqInts(B.AsArray(), ys))
	R2 := cls.Concatenate(A, B)
	A.AppendValue(v)
	if nb > 0 {
		B.SetValue(1, v)
		B.RemoveValue(-1)
	}
	vf.Assert("result-unaffected-by-operands", eqInts(R2.AsArray(), cat(xs, ys)))
	S := cls.Concatenate(A, A)
	S.RemoveAll()
	vf.Assert("self-operand-unaffected", eqInts(A.AsArray(), cat(xs, []int{v})))
	vf.BudgetReset()
	vf.Reach("end")
}

// VF_C16_ExtractPointers: keys compared by identity, not by what they point to: a requested pointer that is
// not a key of the catalog contributes nothing even if it points to an equal value.
func VF_C16_ExtractPointers(n, _ int) {
	cells := make([]int, n+1)
	twins := make([]int, n+1)
	c := col.Catalog[*int, int](nil).Make()
	for i := 0; i < n; i++ {
		cells[i] = vf.Int("c" + itoa(i))
		twins[i] = cells[i] // a different variable holding an equal value
		c.SetValue(&cells[i], 10+i)
	}
	var req []*int
	for i := 0; i < n; i++ {
		req = append(req, &twins[i])
	}
	if n > 0 {
		req = append(req, &cells[n-1])
	}
	vf.Budget(40 * listBudget)
	r := col.Catalog[*int, int](nil).Extract(c, col.List[*int](nil).MakeFromArray(req))
	vf.BudgetReset()
	want := 0
	if n > 0 {
		want = 1
	}
	vf.Assert("look-alike-pointers-are-not-keys", r.GetSize() == want)
	if n > 0 && r.GetSize() == 1 {
		a := r.AsArray()[0]
		vf.Assert("the-real-key-is-extracted", a.GetKey() == &cells[n-1] && a.GetValue() == 10+n-1)
	}
	m2 := col.Catalog[*int, int](nil).Make()
	for i := 0; i < n; i++ {
		m2.SetValue(&twins[i], 20+i)
	}
	mg := col.Catalog[*int, int](nil).Merge(c, m2)
	vf.Assert("merge-keeps-look-alike-pointers-apart", mg.GetSize() == 2*n)
	vf.Reach("end")
}
