//go:build verif

package zzvh

import (
	col "github.com/craterdog/go-collection-framework/v4/collection"
	vf "github.com/craterdog/go-collection-framework/v4/zzvf"
)

// firstIndex: least ordinal k with eq(k) true, else 0 — as one symbolic term.
func firstIndex(n int, eq func(i int) bool) int {
	r := 0
	for i := n - 1; i >= 0; i-- {
		r = vf.IteInt(eq(i), i+1, r)
	}
	return r
}

func VF_C01_SearchInt(n, m int) {
	xs := vf.Ints("xs", n)
	ys := vf.Ints("ys", m)
	v := vf.Int("v")
	l := newList(xs)
	vf.Budget(4 * listBudget)
	exp := firstIndex(n, func(i int) bool { return xs[i] == v })
	vf.Assert("getindex-least-match", l.GetIndex(v) == exp)
	vf.Assert("containsvalue", l.ContainsValue(v) == (exp > 0))
	any_, all_ := false, true
	for _, y := range ys {
		any_ = vf.Or(any_, member(xs, y))
		all_ = vf.And(all_, member(xs, y))
	}
	vf.Assert("containsany", l.ContainsAny(newArr(ys)) == any_)
	vf.Assert("containsall", l.ContainsAll(newArr(ys)) == all_)
	vf.Assert("containsall-self", l.ContainsAll(l))
	vf.Assert("search-unchanged", eqInts(l.AsArray(), xs))
	vf.BudgetReset()
	vf.Reach("end")
}

func VF_C01_SearchString(n, ln int) {
	xs := make([]string, n)
	for i := range xs {
		xs[i] = vf.String("s"+string(rune('0'+i)), ln)
	}
	v := vf.String("v", ln)
	w := vf.String("w", ln+1) // a value of another length can never match
	l := col.List[string](nil).MakeFromArray(xs)
	vf.Budget(4 * listBudget)
	exp := firstIndex(n, func(i int) bool { return vf.StrEq(xs[i], v) })
	vf.Assert("getindex-least-match", l.GetIndex(v) == exp)
	vf.Assert("containsvalue", l.ContainsValue(v) == (exp > 0))
	vf.Assert("other-length-absent", l.GetIndex(w) == 0)
	vf.Assert("search-unchanged", eqStrs(l.AsArray(), xs))
	vf.BudgetReset()
	vf.Reach("end")
}

func VF_C01_SearchFloat(n, _ int) {
	xs := vf.Float64s("xs", n)
	v := vf.Float64("v")
	nan := v != v
	for _, x := range xs {
		nan = vf.Or(nan, x != x)
	}
	vf.Assume(!nan) // NaN equality belongs to C07/C08
	l := col.List[float64](nil).MakeFromArray(xs)
	vf.Budget(4 * listBudget)
	exp := firstIndex(n, func(i int) bool { return xs[i] == v })
	vf.Assert("getindex-least-match", l.GetIndex(v) == exp)
	vf.Assert("containsvalue", l.ContainsValue(v) == (exp > 0))
	vf.BudgetReset()
	vf.Reach("end")
}

// Elements of type []int: n slices with lengths chosen by "shape" (base-3 digits), value v of length 0..2.
func VF_C01_SearchSlices(n, shape int) {
	xs := make([][]int, n)
	sh := shape
	for i := range xs {
		xs[i] = vf.Ints("x"+string(rune('0'+i)), sh%3)
		sh /= 3
	}
	v := vf.Ints("v", sh%3)
	l := col.List[[]int](nil).MakeFromArray(xs)
	vf.Budget(8 * listBudget)
	exp := firstIndex(n, func(i int) bool { return eqInts(xs[i], v) })
	vf.Assert("getindex-least-match", l.GetIndex(v) == exp)
	vf.Assert("containsvalue", l.ContainsValue(v) == (exp > 0))
	vf.BudgetReset()
	vf.Reach("end")
}

// Elements of type any over {int, string, nil}; kinds chosen by "shape" (base-3 digits).
func anyOf(kind int, name string) any {
	switch kind {
	case 0:
		return vf.Int(name)
	case 1:
		return vf.String(name, 1)
	}
	return nil
}

func anyEq(a, b any) bool {
	switch x := a.(type) {
	case int:
		y, ok := b.(int)
		return vf.And(ok, x == y)
	case int64:
		y, ok := b.(int64)
		return vf.And(ok, x == y)
	case string:
		y, ok := b.(string)
		if !ok {
			return false
		}
		return vf.StrEq(x, y)
	}
	return b == nil
}

func VF_C01_SearchAny(n, shape int) {
	xs := make([]any, n)
	sh := shape
	for i := range xs {
		xs[i] = anyOf(sh%3, "x"+string(rune('0'+i)))
		sh /= 3
	}
	v := anyOf(sh%3, "v")
	l := col.List[any](nil).MakeFromArray(xs)
	vf.Budget(8 * listBudget)
	exp := firstIndex(n, func(i int) bool { return anyEq(xs[i], v) })
	vf.Assert("getindex-least-match", l.GetIndex(v) == exp)
	vf.Assert("containsvalue", l.ContainsValue(v) == (exp > 0))
	vf.Assert("size", l.GetSize() == n)
	vf.BudgetReset()
	vf.Reach("end")
}
