//go:build verif

package zzvh

import (
	age "github.com/craterdog/go-collection-framework/v4/agent"
	col "github.com/craterdog/go-collection-framework/v4/collection"
	vf "github.com/craterdog/go-collection-framework/v4/zzvf"
)

const (
	lt = age.LesserRank
	eq = age.EqualRank
	gt = age.GreaterRank
)

// preorderLaws checks reflexivity, mirror symmetry and transitivity of <= on a triple, that
// CompareValues agrees with RankValues == Equal (C08), and that the collator returns to depth 0.
// nat (optional) is the type's own strict order.
func preorderLaws[V any](a, b, c V, nat func(x, y V) bool) {
	k := age.Collator[V]().Make()
	vf.Budget(100 * listBudget)
	raa := k.RankValues(a, a)
	rab := k.RankValues(a, b)
	rba := k.RankValues(b, a)
	rbc := k.RankValues(b, c)
	rac := k.RankValues(a, c)
	vf.Assert("reflexive", raa == eq)
	vf.Assert("mirror", vf.And((rab == lt) == (rba == gt), (rab == eq) == (rba == eq)))
	vf.Assert("transitive", vf.Implies(vf.And(rab != gt, rbc != gt), rac != gt))
	vf.Assert("transitive-strict", vf.Implies(vf.And(rab != gt, rbc == lt), rac == lt))
	if nat != nil {
		vf.Assert("natural-order", vf.And((rab == lt) == nat(a, b), (rab == gt) == nat(b, a)))
	}
	vf.Assert("depth-restored", k.GetDepth() == 0)
	vf.Assert("compare-iff-rank-equal", k.CompareValues(a, b) == (rab == eq))
	vf.Assert("compare-reflexive", k.CompareValues(a, a))
	vf.Assert("compare-symmetric", k.CompareValues(a, b) == k.CompareValues(b, a))
	vf.Assert("compare-transitive", vf.Implies(vf.And(k.CompareValues(a, b), k.CompareValues(b, c)), k.CompareValues(a, c)))
	vf.Assert("depth-restored-after-compare", k.GetDepth() == 0)
	// history independence: the same question to the same collator gives the same answer
	vf.Assert("same-answer-on-repeat", k.RankValues(a, b) == rab)
	vf.Assert("fresh-collator-agrees", age.Collator[V]().Make().RankValues(a, b) == rab)
	vf.BudgetReset()
	vf.Reach("end")
}

// VF_C07_Ints: all integer widths, bool and rune.
func VF_C07_Ints(t, _ int) {
	switch t {
	case 0:
		preorderLaws(vf.Bool("a"), vf.Bool("b"), vf.Bool("c"), func(x, y bool) bool { return vf.And(!x, y) })
	case 1:
		preorderLaws(vf.Int8("a"), vf.Int8("b"), vf.Int8("c"), func(x, y int8) bool { return x < y })
	case 2:
		preorderLaws(vf.Int16("a"), vf.Int16("b"), vf.Int16("c"), func(x, y int16) bool { return x < y })
	case 3:
		preorderLaws(vf.Int32("a"), vf.Int32("b"), vf.Int32("c"), func(x, y int32) bool { return x < y })
	case 4:
		preorderLaws(vf.Int64("a"), vf.Int64("b"), vf.Int64("c"), func(x, y int64) bool { return x < y })
	case 5:
		preorderLaws(vf.Int("a"), vf.Int("b"), vf.Int("c"), func(x, y int) bool { return x < y })
	case 6:
		preorderLaws(vf.Uint8("a"), vf.Uint8("b"), vf.Uint8("c"), func(x, y uint8) bool { return x < y })
	case 7:
		preorderLaws(vf.Uint16("a"), vf.Uint16("b"), vf.Uint16("c"), func(x, y uint16) bool { return x < y })
	case 8:
		preorderLaws(vf.Uint32("a"), vf.Uint32("b"), vf.Uint32("c"), func(x, y uint32) bool { return x < y })
	case 9:
		preorderLaws(vf.Uint64("a"), vf.Uint64("b"), vf.Uint64("c"), func(x, y uint64) bool { return x < y })
	case 10:
		preorderLaws(vf.Uint("a"), vf.Uint("b"), vf.Uint("c"), func(x, y uint) bool { return x < y })
	}
}

// VF_C07_Floats: every float value, NaN and signed zeros included.
func VF_C07_Floats(t, _ int) {
	if t == 0 {
		a, b, c := vf.Float64("a"), vf.Float64("b"), vf.Float64("c")
		vf.Class("some-operand-is-NaN", vf.Or(a != a, vf.Or(b != b, c != c)))
		preorderLaws(a, b, c, func(x, y float64) bool { return x < y })
	} else {
		a, b, c := vf.Float32("a"), vf.Float32("b"), vf.Float32("c")
		vf.Class("some-operand-is-NaN", vf.Or(a != a, vf.Or(b != b, c != c)))
		preorderLaws(a, b, c, func(x, y float32) bool { return x < y })
	}
}

// VF_C07_Strings: symbolic bytes (any byte values, so non-UTF-8 too); lengths from the shape (base 3).
func VF_C07_Strings(shape, _ int) {
	a := vf.String("a", shape%3)
	b := vf.String("b", shape/3%3)
	c := vf.String("c", shape/9%3)
	preorderLaws(a, b, c, func(x, y string) bool { return vf.StrLess(x, y) })
}

// lexLess: lexicographic order with a proper prefix first.
func lexLess(x, y []int) bool {
	n := len(x)
	if len(y) < n {
		n = len(y)
	}
	r := len(x) < len(y)
	for i := n - 1; i >= 0; i-- {
		r = vf.Or(x[i] < y[i], vf.And(x[i] == y[i], r))
	}
	return r
}

// VF_C07_Sequences: kind 0 []int, 1 List, 2 Stack, 3 Queue, 4 Array; lengths from the shape (base 3).
func VF_C07_Sequences(shape, kind int) {
	a := vf.Ints("a", shape%3)
	b := vf.Ints("b", shape/3%3)
	c := vf.Ints("c", shape/9%3)
	switch kind {
	case 0:
		preorderLaws(a, b, c, lexLess)
	case 1:
		f := func(x []int) col.ListLike[int] { return col.List[int](nil).MakeFromArray(x) }
		preorderLaws(f(a), f(b), f(c), func(x, y col.ListLike[int]) bool { return lexLess(x.AsArray(), y.AsArray()) })
	case 2:
		f := func(x []int) col.StackLike[int] { return col.Stack[int](nil).MakeFromArray(x) }
		preorderLaws(f(a), f(b), f(c), func(x, y col.StackLike[int]) bool { return lexLess(x.AsArray(), y.AsArray()) })
	case 3:
		f := func(x []int) col.QueueLike[int] { return col.Queue[int](nil).MakeFromArray(x) }
		preorderLaws(f(a), f(b), f(c), func(x, y col.QueueLike[int]) bool { return lexLess(x.AsArray(), y.AsArray()) })
	case 4:
		f := func(x []int) col.ArrayLike[int] { return col.Array[int](nil).MakeFromArray(x) }
		preorderLaws(f(a), f(b), f(c), func(x, y col.ArrayLike[int]) bool { return lexLess(x.AsArray(), y.AsArray()) })
	}
}

// VF_C07_Nested: [][]int (outer length from shape, inner length 1), []string, sets of ints, lists of lists.
func VF_C07_Nested(shape, kind int) {
	mk := func(tag string, n int) [][]int {
		out := make([][]int, n)
		for i := range out {
			out[i] = vf.Ints(tag+string(rune('0'+i)), 1)
		}
		return out
	}
	la, lb, lc := shape%3, shape/3%3, shape/9%3
	switch kind {
	case 0:
		preorderLaws(mk("a", la), mk("b", lb), mk("c", lc), nil)
	case 1:
		ms := func(tag string, n int) []string {
			out := make([]string, n)
			for i := range out {
				out[i] = vf.String(tag+string(rune('0'+i)), 1)
			}
			return out
		}
		preorderLaws(ms("a", la), ms("b", lb), ms("c", lc), nil)
	case 2:
		f := func(tag string, n int) col.SetLike[int] { return col.Set[int](nil).MakeFromArray(vf.Ints(tag, n)) }
		preorderLaws(f("a", la), f("b", lb), f("c", lc), func(x, y col.SetLike[int]) bool { return lexLess(x.AsArray(), y.AsArray()) })
	case 3:
		f := func(tag string, n int) col.ListLike[col.ListLike[int]] {
			l := col.List[col.ListLike[int]](nil).Make()
			for i := 0; i < n; i++ {
				l.AppendValue(col.List[int](nil).MakeFromArray(vf.Ints(tag+string(rune('0'+i)), 1)))
			}
			return l
		}
		preorderLaws(f("a", la), f("b", lb), f("c", lc), nil)
	case 4:
		f := func(tag string, n int) []any {
			out := make([]any, n)
			for i := range out {
				if i%2 == 0 {
					out[i] = vf.Int(tag + string(rune('0'+i)))
				} else {
					out[i] = vf.String(tag+string(rune('0'+i)), 1)
				}
			}
			return out
		}
		preorderLaws(f("a", la), f("b", lb), f("c", lc), nil)
	}
}

// VF_C07_Maps: Go maps, Maps and Catalogs with string keys; sizes from the shape (base 3).
// Also: the rank does not depend on insertion order.
func VF_C07_Maps(shape, kind int) {
	type kv struct {
		k []string
		v []int
	}
	mk := func(tag string, n int) kv {
		r := kv{}
		for i := 0; i < n; i++ {
			k := vf.String(tag+"k"+string(rune('0'+i)), 1)
			for _, o := range r.k {
				vf.Assume(!vf.StrEq(o, k))
			}
			r.k = append(r.k, k)
			r.v = append(r.v, vf.Int(tag+"v"+string(rune('0'+i))))
		}
		return r
	}
	base := 3
	if kind == 0 || kind == 1 {
		base = 2 // Go maps / Maps of size <= 1; kinds 4 / 5 = the same with sizes <= 2
	}
	A, B, C := mk("a", shape%base), mk("b", shape/base%base), mk("c", shape/base/base%base)
	switch kind {
	case 0, 4:
		f := func(x kv, reverse bool) map[string]int {
			m := map[string]int{}
			for i := range x.k {
				j := i
				if reverse {
					j = len(x.k) - 1 - i
				}
				m[x.k[j]] = x.v[j]
			}
			return m
		}
		k := age.Collator[map[string]int]().Make()
		vf.Budget(100 * listBudget)
		vf.Assert("insertion-order-irrelevant", k.RankValues(f(A, false), f(A, true)) == eq)
		vf.Assert("insertion-order-irrelevant-vs-third", k.RankValues(f(A, false), f(B, false)) == k.RankValues(f(A, true), f(B, true)))
		vf.BudgetReset()
		// the specified order: key then value over the sorted keys, a proper prefix first
		sorted := func(x kv) kv {
			if len(x.k) == 2 && vf.StrLess(x.k[1], x.k[0]) {
				return kv{[]string{x.k[1], x.k[0]}, []int{x.v[1], x.v[0]}}
			}
			return x
		}
		less := func(x, y kv) bool {
			x, y = sorted(x), sorted(y)
			for i := 0; i < len(x.k) && i < len(y.k); i++ {
				if !vf.StrEq(x.k[i], y.k[i]) {
					return vf.StrLess(x.k[i], y.k[i])
				}
				if x.v[i] != y.v[i] {
					return x.v[i] < y.v[i]
				}
			}
			return len(x.k) < len(y.k)
		}
		vf.Budget(100 * listBudget)
		rab := k.RankValues(f(A, false), f(B, true))
		vf.Assert("map-order-is-key-then-value-over-sorted-keys", vf.And((rab == lt) == less(A, B), (rab == gt) == less(B, A)))
		vf.BudgetReset()
		preorderLaws(f(A, false), f(B, false), f(C, true), nil)
	case 1, 5:
		f := func(x kv) col.MapLike[string, int] {
			m := col.Map[string, int](nil).Make()
			for i := range x.k {
				m.SetValue(x.k[i], x.v[i])
			}
			return m
		}
		preorderLaws(f(A), f(B), f(C), nil)
	case 2:
		f := func(x kv) col.CatalogLike[string, int] {
			m := col.Catalog[string, int](nil).Make()
			for i := range x.k {
				m.SetValue(x.k[i], x.v[i])
			}
			return m
		}
		preorderLaws(f(A), f(B), f(C), nil)
	case 3:
		if len(A.k) > 0 && len(B.k) > 0 && len(C.k) > 0 {
			f := func(x kv) col.AssociationLike[string, int] {
				return col.Association[string, int](nil).Make(x.k[0], x.v[0])
			}
			preorderLaws(f(A), f(B), f(C), nil)
		} else {
			vf.Reach("end")
		}
	}
}

// VF_C07_Any: the `any` collator over the canonical dynamic types; nil ranks first.
func VF_C07_Any(types, _ int) {
	mk := func(tag string, t int) any {
		switch t {
		case 0:
			return nil
		case 1:
			return vf.Int64(tag)
		case 2:
			return vf.String(tag, 1)
		case 3:
			return vf.Bool(tag)
		case 4:
			return vf.Ints(tag, 1)
		}
		return vf.Rune(tag)
	}
	a, b, c := mk("a", types%6), mk("b", types/6%6), mk("c", types/36%6)
	k := age.Collator[any]().Make()
	if a == nil && b != nil {
		vf.Assert("nil-ranks-first", k.RankValues(a, b) == lt)
	}
	preorderLaws(a, b, c, nil)
}

// VF_C07_Complex: complex numbers built from special parts (signed zeros, units, infinities, NaN).
// Magnitude and phase are transcendental: only concrete special values can be decided here.
func VF_C07_Complex(sel, _ int) {
	parts := []float64{0, negZero(), 1, -1, posInf(), nan()}
	pick := func(s int) complex128 { return complex(parts[s%6], parts[s/6%6]) }
	a, b, c := pick(sel%36), pick(sel/36%36), pick(sel/1296%36)
	some := func(p func(f float64) bool) bool {
		for _, z := range []complex128{a, b, c} {
			if p(real(z)) || p(imag(z)) {
				return true
			}
		}
		return false
	}
	inf := posInf()
	vf.Class("complex-operand-with-NaN-part", some(func(f float64) bool { return f != f }))
	vf.Class("complex-operand-with-infinite-part", some(func(f float64) bool { return f == inf || f == -inf }))
	vf.Class("complex-operand-with-negative-zero-part", some(func(f float64) bool { return f == 0 && 1/f < 0 }))
	preorderLaws(a, b, c, nil)
}

func negZero() float64 { z := 0.0; return -z }
func posInf() float64  { z := 0.0; return 1 / z }
func nan() float64     { z := 0.0; return z / z }

// VF_C07_AnyNumeric: the `any` collator over numeric dynamic types of different widths and signedness
// (byte, uint16, uint64, int8, int64, rune, uint): a value keeps its meaning whatever it is compared with.
func VF_C07_AnyNumeric(types, _ int) {
	mk := func(tag string, t int) any {
		switch t {
		case 0:
			return vf.Uint8(tag)
		case 1:
			return vf.Uint16(tag)
		case 2:
			return vf.Uint64(tag)
		case 3:
			return vf.Int8(tag)
		case 4:
			return vf.Int64(tag)
		case 5:
			return vf.Rune(tag)
		}
		return vf.Uint(tag)
	}
	a, b, c := mk("a", types%7), mk("b", types/7%7), mk("c", types/49%7)
	// only the order laws: whether CompareValues calls a uint16 and a uint64 of the same magnitude equal is
	// outside the property (its universe for the any collator is the canonical dynamic types)
	k := age.Collator[any]().Make()
	vf.Budget(100 * listBudget)
	raa, rab, rba, rbc, rac := k.RankValues(a, a), k.RankValues(a, b), k.RankValues(b, a), k.RankValues(b, c), k.RankValues(a, c)
	vf.Assert("reflexive", raa == eq)
	vf.Assert("mirror", vf.And((rab == lt) == (rba == gt), (rab == eq) == (rba == eq)))
	vf.Assert("transitive", vf.Implies(vf.And(rab != gt, rbc != gt), rac != gt))
	vf.Assert("transitive-strict", vf.Implies(vf.And(rab != gt, rbc == lt), rac == lt))
	vf.Assert("depth-restored", k.GetDepth() == 0)
	vf.Assert("same-answer-on-repeat", k.RankValues(a, b) == rab)
	vf.BudgetReset()
	vf.Reach("end")
}

// VF_C07_ComplexExtremes: complex numbers whose parts are finite but far from 1 (1e200, 5e-324, ...):
// the order is by magnitude then phase, so two values of clearly different magnitude never rank Equal,
// whatever intermediate computation (squares!) would overflow or underflow.
func VF_C07_ComplexExtremes(sel, _ int) {
	parts := []float64{0, 1, -1, 1e200, 2e200, -2e200, 1e-200, 5e-324, 3e-320}
	pick := func(s int) complex128 { return complex(parts[s%9], parts[s/9%9]) }
	a, b := pick(sel%81), pick(sel/81%81)
	k := age.Collator[complex128]().Make()
	rab, rba := k.RankValues(a, b), k.RankValues(b, a)
	vf.Assert("mirror", vf.And((rab == lt) == (rba == gt), (rab == eq) == (rba == eq)))
	// magnitude as the larger absolute part, up to a factor of sqrt 2: a factor of ten apart is decisive
	big := func(z complex128) float64 {
		re, im := real(z), imag(z)
		if re < 0 {
			re = -re
		}
		if im < 0 {
			im = -im
		}
		if re > im {
			return re
		}
		return im
	}
	ma, mb := big(a), big(b)
	if ma*10 < mb && ma < 1e300 {
		vf.Assert("clearly-smaller-magnitude-ranks-lesser", rab == lt)
	}
	if mb*10 < ma && mb < 1e300 {
		vf.Assert("clearly-larger-magnitude-ranks-greater", rab == gt)
	}
	vf.Assert("compare-iff-rank-equal", k.CompareValues(a, b) == (rab == eq))
	vf.Reach("end")
}

// VF_C07_NilInside: "an undefined value ranks before every defined one" also below the top level: nil elements of
// []any, nil pointers in []*int, nil values in map[string]any, nil items in a List[any].
func VF_C07_NilInside(kind, _ int) {
	x := vf.Int64("x")
	s := vf.String("s", 1)
	k := age.Collator[any]().Make()
	check := func(tag string, undefined, defined any) {
		vf.Assert(tag+"-nil-ranks-first", k.RankValues(undefined, defined) == lt)
		vf.Assert(tag+"-mirror", k.RankValues(defined, undefined) == gt)
		vf.Assert(tag+"-not-equal", !k.CompareValues(undefined, defined))
	}
	vf.Budget(100 * listBudget)
	switch kind {
	case 0:
		check("slice-of-any-int", []any{nil}, []any{x})
		check("slice-of-any-string", []any{int64(1), nil}, []any{int64(1), s})
	case 1:
		cell := int(x)
		check("slice-of-pointers", []*int{nil}, []*int{&cell})
	case 2:
		check("map-value", map[string]any{"a": nil}, map[string]any{"a": x})
	case 3:
		check("list-item", col.List[any](nil).MakeFromArray([]any{nil}), col.List[any](nil).MakeFromArray([]any{x}))
		check("catalog-value", catalogAny("k", nil), catalogAny("k", s))
	}
	vf.Assert("depth-restored", k.GetDepth() == 0)
	vf.BudgetReset()
	vf.Reach("end")
}

func catalogAny(key string, v any) any {
	c := col.Catalog[string, any](nil).Make()
	c.SetValue(key, v)
	return c
}

// VF_C07_MapOrder: the order of Go maps is the specified one - key then value over the sorted keys, a proper
// prefix first - not merely some preorder.  Sizes na, nb <= 2, one-byte string keys, int values.
func VF_C07_MapOrder(na, nb int) {
	mk := func(tag string, n int) (ks []string, vs []int) {
		for i := 0; i < n; i++ {
			k := vf.String(tag+"k"+itoa(i), 1)
			for _, o := range ks {
				vf.Assume(!vf.StrEq(o, k))
			}
			ks, vs = append(ks, k), append(vs, vf.Int(tag+"v"+itoa(i)))
		}
		if n == 2 && vf.StrLess(ks[1], ks[0]) { // keep the model sorted by key
			ks[0], ks[1], vs[0], vs[1] = ks[1], ks[0], vs[1], vs[0]
		}
		return
	}
	ak, av := mk("a", na)
	bk, bv := mk("b", nb)
	less := func(xk []string, xv []int, yk []string, yv []int) bool {
		for i := 0; i < len(xk) && i < len(yk); i++ {
			if !vf.StrEq(xk[i], yk[i]) {
				return vf.StrLess(xk[i], yk[i])
			}
			if xv[i] != yv[i] {
				return xv[i] < yv[i]
			}
		}
		return len(xk) < len(yk)
	}
	build := func(ks []string, vs []int) map[string]int {
		m := map[string]int{}
		for i := len(ks) - 1; i >= 0; i-- {
			m[ks[i]] = vs[i]
		}
		return m
	}
	k := age.Collator[map[string]int]().Make()
	vf.Budget(200 * listBudget)
	rab := k.RankValues(build(ak, av), build(bk, bv))
	vf.Assert("map-order-is-key-then-value-over-sorted-keys", vf.And((rab == lt) == less(ak, av, bk, bv), (rab == gt) == less(bk, bv, ak, av)))
	ka := age.Collator[any]().Make()
	vf.Assert("same-order-under-the-any-collator", ka.RankValues(build(ak, av), build(bk, bv)) == rab)
	vf.BudgetReset()
	vf.Reach("end")
}
