//go:build verif

package zzvh

import (
	age "github.com/craterdog/go-collection-framework/v4/agent"
	col "github.com/craterdog/go-collection-framework/v4/collection"
	vf "github.com/craterdog/go-collection-framework/v4/zzvf"
)

// c15Check: r is strictly ascending, contains exactly the rank classes selected by want(inA,inB),
// and every element of r is an element of A or B.
func c15Check(tag string, r, xs, ys []int, want func(inA, inB bool) bool) {
	vf.Assert(tag+"-ordered-duplicate-free", strictlyAscendingUF(r))
	ok := true
	for _, c := range cat(xs, ys) {
		ok = vf.And(ok, presentUF(r, c) == want(presentUF(xs, c), presentUF(ys, c)))
	}
	for _, g := range r {
		ok = vf.And(ok, vf.Or(member(xs, g), member(ys, g)))
		ok = vf.And(ok, want(presentUF(xs, g), presentUF(ys, g)))
	}
	vf.Assert(tag+"-exact-members", ok)
}

func setOp(op int, a, b col.SetLike[int]) col.SetLike[int] {
	cls := col.Set[int](nil)
	switch op {
	case 0:
		return cls.And(a, b)
	case 1:
		return cls.Or(a, b)
	case 2:
		return cls.Sans(a, b)
	}
	return cls.Xor(a, b)
}

func wantOp(op int) func(inA, inB bool) bool {
	switch op {
	case 0:
		return func(a, b bool) bool { return vf.And(a, b) }
	case 1:
		return func(a, b bool) bool { return vf.Or(a, b) }
	case 2:
		return func(a, b bool) bool { return vf.And(a, !b) }
	}
	return func(a, b bool) bool { return a != b }
}

// VF_C15_Algebra: sizes = a*5+b, second parameter = op + 4*max size; op 0..3 (And, Or, Sans, Xor); collator = any total preorder.
func VF_C15_Algebra(sizes, opmax int) {
	na, nb := sizes/5, sizes%5
	op, max := opmax%4, opmax/4 // second parameter = op + 4*(largest operand size explored)
	if na > max || nb > max {
		vf.Reach("end")
		return
	}
	xs := vf.Ints("a", na)
	ys := vf.Ints("b", nb)
	vf.Budget(40 * listBudget)
	A, B := ufSet(xs), ufSet(ys)
	r := setOp(op, A, B)
	c15Check("result", r.AsArray(), xs, ys, wantOp(op))
	vf.Assert("operand-a-unchanged", eqInts(A.AsArray(), xs))
	vf.Assert("operand-b-unchanged", eqInts(B.AsArray(), ys))
	// independence: later changes to the result do not reach the operands, and vice versa
	before := clone(r.AsArray())
	v := vf.Int("v")
	r.AddValue(v)
	r.RemoveValue(vf.Int("w"))
	vf.Assert("operand-a-unaffected-by-result", eqInts(A.AsArray(), xs))
	vf.Assert("operand-b-unaffected-by-result", eqInts(B.AsArray(), ys))
	r2 := setOp(op, A, B)
	A.AddValue(v)
	B.RemoveAll()
	vf.Assert("result-unaffected-by-operands", eqInts(r2.AsArray(), before))
	vf.BudgetReset()
	vf.Reach("end")
}

// The same set passed twice.
func VF_C15_SameOperand(n, op int) {
	xs := vf.Ints("a", n)
	vf.Budget(40 * listBudget)
	A := ufSet(xs)
	r := setOp(op, A, A)
	c15Check("same", r.AsArray(), xs, xs, wantOp(op))
	vf.Assert("operand-unchanged", eqInts(A.AsArray(), xs))
	r.AddValue(vf.Int("v"))
	vf.Assert("operand-unaffected-by-result", eqInts(A.AsArray(), xs))
	vf.BudgetReset()
	vf.Reach("end")
}

// Real default collator on ints.
func VF_C15_DefaultInt(sizes, opmax int) {
	na, nb := sizes/5, sizes%5
	op, max := opmax%4, opmax/4
	if na > max || nb > max {
		vf.Reach("end")
		return
	}
	xs := vf.Ints("a", na)
	ys := vf.Ints("b", nb)
	vf.Budget(40 * listBudget)
	A := col.Set[int](nil).MakeFromArray(xs)
	B := col.Set[int](nil).MakeFromArray(ys)
	r := setOp(op, A, B).AsArray()
	asc := true
	for i := 0; i+1 < len(r); i++ {
		asc = vf.And(asc, r[i] < r[i+1])
	}
	vf.Assert("natural-strictly-ascending", asc)
	want := wantOp(op)
	ok := true
	for _, c := range cat(xs, ys) {
		ok = vf.And(ok, member(r, c) == want(member(xs, c), member(ys, c)))
	}
	for _, g := range r {
		ok = vf.And(ok, want(member(xs, g), member(ys, g)))
	}
	vf.Assert("natural-exact-members", ok)
	vf.BudgetReset()
	vf.Reach("end")
}

// descCollator: the reverse of the natural order (a custom collator an operand may carry).
type descCollator struct{}

func (descCollator) GetClass() age.CollatorClassLike[int] { return nil }
func (descCollator) CompareValues(a, b int) bool          { return a == b }
func (descCollator) GetDepth() int                        { return 0 }
func (descCollator) GetMaximum() int                      { return 16 }
func (descCollator) RankValues(a, b int) age.Rank {
	if a > b {
		return age.LesserRank
	}
	if a < b {
		return age.GreaterRank
	}
	return age.EqualRank
}

// VF_C15_MixedCollators: operands that carry different collators (first descending, second natural, or the
// other way round).  Both orders distinguish exactly the same values, so the members are the set-theoretic
// ones; the result is an ordered set in the order of the first operand, whose collator every one of the
// four operations hands to the result.
var c15mixed = [][2]int{{0, 0}, {1, 0}, {0, 1}, {1, 1}, {2, 1}, {1, 2}, {2, 2}, {3, 2}, {0, 2}, {0, 3}, {2, 3}, {3, 3}}

func VF_C15_MixedCollators(sizes, opmax int) {
	na, nb := c15mixed[sizes][0], c15mixed[sizes][1]
	op, which := opmax%4, opmax/4
	xs := vf.Ints("a", na)
	ys := vf.Ints("b", nb)
	for _, v := range cat(xs, ys) {
		vf.Assume(vf.And(v >= -8, v <= 8)) // stated bound: the natural order on the full range is VF_C15_DefaultInt's subject
	}
	vf.Budget(40 * listBudget)
	var A, B col.SetLike[int]
	if which == 0 {
		A = col.Set[int](nil).MakeWithCollator(descCollator{})
		B = col.Set[int](nil).Make()
	} else {
		A = col.Set[int](nil).Make()
		B = col.Set[int](nil).MakeWithCollator(descCollator{})
	}
	for _, x := range xs {
		A.AddValue(x)
	}
	for _, y := range ys {
		B.AddValue(y)
	}
	r := setOp(op, A, B).AsArray()
	ordered := true
	for i := 0; i+1 < len(r); i++ {
		if which == 0 {
			ordered = vf.And(ordered, r[i] > r[i+1])
		} else {
			ordered = vf.And(ordered, r[i] < r[i+1])
		}
	}
	vf.Assert("result-ordered-like-first-operand", ordered)
	want := wantOp(op)
	ok := true
	for _, c := range cat(xs, ys) {
		ok = vf.And(ok, member(r, c) == want(member(xs, c), member(ys, c)))
	}
	for _, g := range r {
		ok = vf.And(ok, want(member(xs, g), member(ys, g)))
	}
	vf.Assert("mixed-exact-members", ok)
	vf.BudgetReset()
	vf.Reach("end")
}

// VF_C15_Composite: the four operations on sets of slices (default collator); ma, mb are bit masks over the
// table of slices.  Exact members, lexicographic order, and every collator involved is back at depth 0.
func VF_C15_Composite(masks, op int) {
	ma, mb := masks%32, masks/32
	pick := func(m int) (out [][]int) {
		for i := 0; i < 5; i++ {
			if m&(1<<i) != 0 {
				out = append(out, c02slices[i])
			}
		}
		return
	}
	xs, ys := pick(ma), pick(mb)
	vf.Budget(400 * listBudget)
	cls := col.Set[[]int](nil)
	A, B := cls.MakeFromArray(xs), cls.MakeFromArray(ys)
	var r col.SetLike[[]int]
	switch op {
	case 0:
		r = cls.And(A, B)
	case 1:
		r = cls.Or(A, B)
	case 2:
		r = cls.Sans(A, B)
	default:
		r = cls.Xor(A, B)
	}
	in := func(set [][]int, v []int) bool {
		for _, e := range set {
			if sameSlice(e, v) {
				return true
			}
		}
		return false
	}
	want := wantOp(op)
	got := r.AsArray()
	ok := true
	for i := 0; i < 5; i++ {
		v := c02slices[i]
		ok = ok && in(got, v) == want(in(xs, v), in(ys, v))
	}
	for i := 0; i+1 < len(got); i++ {
		ok = ok && lexLess(got[i], got[i+1])
	}
	vf.Assert("composite-exact-members-in-order", ok)
	vf.Assert("collators-back-at-depth-zero", A.GetCollator().GetDepth() == 0 && B.GetCollator().GetDepth() == 0 && r.GetCollator().GetDepth() == 0)
	vf.BudgetReset()
	vf.Reach("end")
}
