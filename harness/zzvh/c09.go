//go:build verif

package zzvh

import (
	age "github.com/craterdog/go-collection-framework/v4/agent"
	col "github.com/craterdog/go-collection-framework/v4/collection"
	vf "github.com/craterdog/go-collection-framework/v4/zzvf"
)

// count is the multiplicity of v in xs as a symbolic sum.
func count(xs []int, v int) int8 {
	var c int8
	for _, x := range xs {
		c += int8(vf.IteInt(x == v, 1, 0))
	}
	return c
}

// isPerm: a and b hold the same values with the same multiplicities.
func isPerm(a, b []int) bool {
	if len(a) != len(b) {
		return false
	}
	if vf.SameTerms(a, b) {
		return true // the code only moved the symbolic values around: no solver needed
	}
	ok := true
	for _, v := range b {
		ok = vf.And(ok, count(a, v) == count(b, v))
	}
	return ok
}

// ufRanker is "any total preorder": rank(a,b) = cmp3(f(a), f(b)) with f uninterpreted.
func ufRanker(a, b int) age.Rank {
	fa, fb := vf.Rank1("f", a), vf.Rank1("f", b)
	if fa < fb {
		return age.LesserRank
	}
	if fa > fb {
		return age.GreaterRank
	}
	return age.EqualRank
}

// freeRanker is completely unconstrained: a fresh answer at every call.
func freeRanker(a, b int) age.Rank { return age.Rank(vf.Choice("rank", 3)) }

func ascendingUF(xs []int) bool {
	ok := true
	for i := 0; i+1 < len(xs); i++ {
		ok = vf.And(ok, vf.Rank1("f", xs[i]) <= vf.Rank1("f", xs[i+1]))
	}
	return ok
}

func clone(xs []int) []int { return append([]int(nil), xs...) }

// (a) whole sort under any total preorder: ascending permutation.
func VF_C09_SortPreorder(n, _ int) {
	xs := vf.Ints("xs", n)
	orig := clone(xs)
	s := age.Sorter[int]().MakeWithRanker(ufRanker)
	s.SortValues(xs)
	vf.Assert("permutation", isPerm(xs, orig))
	vf.Assert("ascending", ascendingUF(xs))
	vf.Reach("end")
}

// (b) unconstrained ranker: terminates (step budget) and leaves a permutation.
func VF_C09_SortFreeRanker(n, _ int) {
	xs := vf.Ints("xs", n)
	orig := clone(xs)
	s := age.Sorter[int]().MakeWithRanker(freeRanker)
	s.SortValues(xs)
	vf.Assert("permutation", isPerm(xs, orig))
	vf.Reach("end")
}

// (c) natural order through the real default collator.
func VF_C09_SortNatural(n, _ int) {
	xs := vf.Ints("xs", n)
	orig := clone(xs)
	s := age.Sorter[int]().Make()
	s.SortValues(xs)
	vf.Assert("permutation", isPerm(xs, orig))
	ok := true
	for i := 0; i+1 < n; i++ {
		ok = vf.And(ok, xs[i] <= xs[i+1])
	}
	vf.Assert("ascending", ok)
	vf.Reach("end")
}

// (d) reverse is exact and an involution; (e) shuffle is a permutation for every draw.
func VF_C09_ReverseShuffle(n, _ int) {
	xs := vf.Ints("xs", n)
	orig := clone(xs)
	s := age.Sorter[int]().Make()
	s.ReverseValues(xs)
	vf.Assert("reverse-exact", eqInts(xs, rev(orig)))
	s.ReverseValues(xs)
	vf.Assert("reverse-involution", eqInts(xs, orig))
	s.ShuffleValues(xs)
	vf.Assert("shuffle-permutation", isPerm(xs, orig))
	vf.Reach("end")
}

// (f) the Sortable methods of Array and List have the sorter's effect on AsArray().
type sortableInts interface {
	col.Sequential[int]
	col.Sortable[int]
}

func sortableOf(kind int, xs []int) sortableInts {
	if kind == 0 {
		return newArr(xs)
	}
	return newList(xs)
}

func VF_C09_CollectionSortRanker(n, kind int) {
	xs := vf.Ints("xs", n)
	c := sortableOf(kind, xs)
	ref := clone(xs)
	age.Sorter[int]().MakeWithRanker(ufRanker).SortValues(ref)
	c.SortValuesWithRanker(ufRanker)
	vf.Assert("sort-with-ranker-same-as-sorter", eqInts(c.AsArray(), ref))
	vf.Assert("sort-with-ranker-permutation", isPerm(c.AsArray(), xs))
	vf.Assert("sort-with-ranker-ascending", ascendingUF(c.AsArray()))
	vf.Reach("end")
}

func VF_C09_CollectionSortNatural(n, kind int) {
	xs := vf.Ints("xs", n)
	c := sortableOf(kind, xs)
	c.SortValues()
	got := c.AsArray()
	ok := true
	for i := 0; i+1 < len(got); i++ {
		ok = vf.And(ok, got[i] <= got[i+1])
	}
	vf.Assert("sort-natural-ascending", ok)
	vf.Assert("sort-natural-permutation", isPerm(got, xs))
	vf.Reach("end")
}

func VF_C09_CollectionReverseShuffle(n, kind int) {
	xs := vf.Ints("xs", n)
	c := sortableOf(kind, xs)
	c.ReverseValues()
	vf.Assert("reverse-exact", eqInts(c.AsArray(), rev(xs)))
	c.ReverseValues()
	vf.Assert("reverse-involution", eqInts(c.AsArray(), xs))
	c.ShuffleValues()
	vf.Assert("shuffle-permutation", isPerm(c.AsArray(), xs))
	vf.Assert("size", c.GetSize() == n)
	vf.Reach("end")
}

// (g) Catalog: SortValues / SortValuesWithRanker / ReverseValues have the sorter's effect on the associations.
func VF_C09_CatalogSort(n, mode int) {
	ks := vf.Ints("k", n)
	vs := vf.Ints("v", n)
	for i := 0; i < n; i++ {
		for j := i + 1; j < n; j++ {
			vf.Assume(ks[i] != ks[j])
		}
	}
	c := col.Catalog[int, int](nil).Make()
	for i := range ks {
		c.SetValue(ks[i], vs[i])
	}
	byValueDesc := func(a, b col.AssociationLike[int, int]) age.Rank {
		return ufRanker(b.GetValue(), a.GetValue())
	}
	keysOf := func(as []col.AssociationLike[int, int]) (out, vals []int) {
		for _, a := range as {
			out, vals = append(out, a.GetKey()), append(vals, a.GetValue())
		}
		return
	}
	vf.Budget(40 * listBudget)
	switch mode {
	case 0:
		ref := c.AsArray()
		age.Sorter[col.AssociationLike[int, int]]().MakeWithRanker(byValueDesc).SortValues(ref)
		c.SortValuesWithRanker(byValueDesc)
		gk, gv := keysOf(c.AsArray())
		rk, rv := keysOf(ref)
		vf.Assert("catalog-sort-with-ranker-same-as-sorter", vf.And(eqInts(gk, rk), eqInts(gv, rv)))
		ok := true
		for i := 0; i+1 < len(gv); i++ {
			ok = vf.And(ok, vf.Rank1("f", gv[i]) >= vf.Rank1("f", gv[i+1]))
		}
		vf.Assert("catalog-sorted-by-the-given-ranker", ok)
	case 1:
		c.ReverseValues()
		gk, gv := keysOf(c.AsArray())
		vf.Assert("catalog-reverse-exact", vf.And(eqInts(gk, rev(ks)), eqInts(gv, rev(vs))))
	case 2:
		// a history: natural sort, reverse, natural sort again - ascending by key each time it is sorted
		asc := func() bool {
			gk, _ := keysOf(c.AsArray())
			ok := true
			for i := 0; i+1 < len(gk); i++ {
				ok = vf.And(ok, gk[i] < gk[i+1])
			}
			return ok
		}
		c.SortValues()
		vf.Assert("catalog-natural-sort-ascending", asc())
		first, _ := keysOf(c.AsArray())
		c.ReverseValues()
		gk, _ := keysOf(c.AsArray())
		vf.Assert("catalog-reverse-after-sort-exact", eqInts(gk, rev(first)))
		c.SortValues()
		vf.Assert("catalog-sorted-again-after-reverse", asc())
		c.ShuffleValues()
		c.SortValues()
		vf.Assert("catalog-sorted-again-after-shuffle", asc())
	}
	for i := range ks {
		vf.Assert("catalog-lookup-unaffected-by-reordering", c.GetValue(ks[i]) == vs[i])
	}
	vf.Assert("size", c.GetSize() == n)
	vf.BudgetReset()
	vf.Reach("end")
}

// (h) longer arrays: a concrete base pattern of n values (descending, saw-tooth, ascending) in which two
// positions hold arbitrary values; the merge sort's run handling depends on n, not on the small sizes of (a).
func natRanker(a, b int) age.Rank {
	if a < b {
		return age.LesserRank
	}
	if a > b {
		return age.GreaterRank
	}
	return age.EqualRank
}

func VF_C09_LongRuns(n, sel int) {
	pattern, two := sel%3, sel >= 3 // sel 0..2: one arbitrary value, 3..5: two
	xs := make([]int, n)
	for i := range xs {
		switch pattern {
		case 0:
			xs[i] = 2 * (n - i)
		case 1:
			xs[i] = 2 * ((n - i) % 4)
		default:
			xs[i] = 2 * i
		}
	}
	a, b := vf.Int("a"), vf.Int("b")
	vf.Assume(vf.And(vf.And(a >= -1, a <= 2*n+1), vf.And(b >= -1, b <= 2*n+1)))
	if n > 0 {
		if two {
			xs[n/3] = a
		}
		xs[n-1] = b
	}
	orig := clone(xs)
	vf.Budget(400 * listBudget)
	age.Sorter[int]().MakeWithRanker(natRanker).SortValues(xs)
	vf.BudgetReset()
	ok := true
	for i := 0; i+1 < n; i++ {
		ok = vf.And(ok, xs[i] <= xs[i+1])
	}
	vf.Assert("long-array-ascending", ok)
	vf.Assert("long-array-permutation", isPerm(xs, orig))
	vf.Reach("end")
}

// (i) one sorter instance used again: every SortValues call sorts the array it is given and nothing else.
func VF_C09_SorterReuse(n, m int) {
	xs := vf.Ints("xs", n)
	ys := vf.Ints("ys", m)
	ox, oy := clone(xs), clone(ys)
	s := age.Sorter[int]().MakeWithRanker(ufRanker)
	vf.Budget(80 * listBudget)
	s.SortValues(xs)
	first := clone(xs)
	vf.Assert("first-sort-ascending-permutation", vf.And(ascendingUF(xs), isPerm(xs, ox)))
	s.SortValues(ys)
	vf.Assert("second-array-ascending-permutation", vf.And(ascendingUF(ys), isPerm(ys, oy)))
	vf.Assert("first-array-untouched-by-the-second-sort", eqInts(xs, first))
	s.SortValues(xs)
	// (stability is not part of the property: values that rank equal may change places)
	vf.Assert("sorting-a-sorted-array-again-ascending-permutation", vf.And(ascendingUF(xs), isPerm(xs, ox)))
	s.ReverseValues(xs)
	s.SortValues(xs)
	vf.Assert("sorted-again-after-reverse", vf.And(ascendingUF(xs), isPerm(xs, ox)))
	vf.BudgetReset()
	vf.Reach("end")
}
