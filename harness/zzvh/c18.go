//go:build verif

package zzvh

import (
	col "github.com/craterdog/go-collection-framework/v4/collection"
	vf "github.com/craterdog/go-collection-framework/v4/zzvf"
	"sync"
)

// scribble overwrites every slot of a Go array with a fresh symbolic value.
func scribble(xs []int) {
	w := vf.Int("scribble")
	for i := range xs {
		xs[i] = w
	}
}

type intSeq interface {
	AsArray() []int
}

// VF_C18_Arrays: Go arrays crossing the API of the five value collections are copied.
// which = kind*8 + case; kind: 0 array, 1 list, 2 set, 3 stack, 4 queue.
func VF_C18_Arrays(n, which int) {
	kind, cs := which/8, which%8
	xs := vf.Ints("xs", n)
	orig := clone(xs)
	vf.Budget(40 * listBudget)
	var c intSeq
	var expect []int
	switch kind {
	case 0:
		c = col.Array[int](nil).MakeFromArray(xs)
		expect = orig
	case 1:
		c = col.List[int](nil).MakeFromArray(xs)
		expect = orig
	case 2:
		s := col.Set[int](nil).MakeFromArray(xs)
		c = s
		expect = clone(s.AsArray())
	case 3:
		c = col.Stack[int](nil).MakeFromArray(xs)
		expect = orig
	case 4:
		c = col.Queue[int](nil).MakeFromArray(xs)
		expect = orig
	}
	switch cs {
	case 0: // mutate the constructor argument after the call
		scribble(xs)
		vf.Assert("collection-unaffected-by-argument", eqInts(c.AsArray(), expect))
	case 1: // mutate the array view
		v := c.AsArray()
		scribble(v)
		vf.Assert("collection-unaffected-by-its-array-view", eqInts(c.AsArray(), expect))
	case 2: // two views are distinct arrays
		v1, v2 := c.AsArray(), c.AsArray()
		scribble(v1)
		vf.Assert("views-independent", eqInts(v2, expect))
	case 3: // GetValues result (Array, List, Set) vs later in-place mutation of the collection
		n := len(expect) // a set may hold fewer values than the array it was built from
		if n == 0 || kind > 2 {
			break
		}
		first, last := vf.Int("first"), vf.Int("last")
		vf.Assume(vf.And(vf.And(first >= 1, first <= last), last <= n))
		fc, lc := vf.Concrete(first, 1, n), vf.Concrete(last, 1, n)
		w := vf.Int("w")
		switch kind {
		case 0:
			a := c.(col.ArrayLike[int])
			r := a.GetValues(first, last)
			a.SetValue(vf.Concrete(vf.Choice("pos", n), 0, n-1)+1, w)
			a.ReverseValues()
			vf.Assert("getvalues-result-unaffected", eqInts(r.AsArray(), expect[fc-1:lc]))
			r2 := a.GetValues(first, last)
			before := clone(a.AsArray())
			scribble(r2.AsArray())
			if u, ok := r2.(col.Updatable[int]); ok {
				u.SetValue(1, w)
			}
			vf.Assert("collection-unaffected-by-getvalues-result", eqInts(a.AsArray(), before))
		case 1:
			l := c.(col.ListLike[int])
			r := l.GetValues(first, last)
			l.SetValue(vf.Concrete(vf.Choice("pos", n), 0, n-1)+1, w)
			l.ReverseValues()
			vf.Assert("getvalues-result-unaffected", eqInts(r.AsArray(), expect[fc-1:lc]))
			r2 := l.GetValues(first, last)
			before := clone(l.AsArray())
			if u, ok := r2.(col.Updatable[int]); ok {
				u.SetValue(1, w)
			}
			vf.Assert("collection-unaffected-by-getvalues-result", eqInts(l.AsArray(), before))
		case 2:
			s := c.(col.SetLike[int])
			r := s.GetValues(first, last)
			s.RemoveAll()
			vf.Assert("getvalues-result-unaffected", eqInts(r.AsArray(), expect[fc-1:lc]))
		}
	case 4: // RemoveValues result (List) is independent of the list
		if n == 0 || kind != 1 {
			break
		}
		l := c.(col.ListLike[int])
		r := l.RemoveValues(1, n)
		l.AppendValue(vf.Int("w"))
		l.AppendValues(r)
		vf.Assert("removevalues-result-unaffected", eqInts(r.AsArray(), expect))
	case 5: // MakeFromSequence copies the sequence
		if kind != 0 && kind != 1 {
			break
		}
		src := col.Array[int](nil).MakeFromArray(orig)
		var d intSeq
		if kind == 0 {
			d = col.Array[int](nil).MakeFromSequence(src)
		} else {
			d = col.List[int](nil).MakeFromSequence(src)
		}
		if n > 0 {
			src.SetValue(1, vf.Int("w"))
			src.ReverseValues()
		}
		vf.Assert("collection-unaffected-by-source-sequence", eqInts(d.AsArray(), orig))
	}
	vf.BudgetReset()
	vf.Reach("end")
}

// VF_C18_Assoc: Go maps and association arrays crossing the Catalog / Map API.
func VF_C18_Assoc(n, cs int) {
	kit := intKeys()
	ks := vf.Ints("k", n)
	vs := vf.Ints("v", n)
	for i := range ks {
		for j := i + 1; j < n; j++ {
			vf.Assume(ks[i] != ks[j])
		}
	}
	m := &omodel[int]{clone(ks), clone(vs)}
	gm := map[int]int{}
	var assocs []col.AssociationLike[int, int]
	for i := range ks {
		gm[ks[i]] = vs[i]
		assocs = append(assocs, col.Association[int, int](nil).Make(ks[i], vs[i]))
	}
	nk, nv := vf.Int("nk"), vf.Int("nv")
	vf.Budget(40 * listBudget)
	switch cs {
	case 0: // Map.MakeFromMap: mutate the Go map afterwards
		mp := col.Map[int, int](nil).MakeFromMap(gm)
		gm[nk] = nv
		for _, k := range ks {
			gm[k] = nv
			delete(gm, k)
		}
		checkMap("map-unaffected-by-go-map", kit, mp, m)
	case 1: // Catalog.MakeFromMap
		c := col.Catalog[int, int](nil).MakeFromMap(gm)
		gm[nk] = nv
		for _, k := range ks {
			delete(gm, k)
		}
		ok := c.GetSize() == n
		for i := range ks {
			ok = vf.And(ok, c.GetValue(ks[i]) == vs[i])
		}
		vf.Assert("catalog-unaffected-by-go-map", ok)
	case 2: // Catalog.MakeFromArray: replace slots of the argument array / write through its associations
		c := col.Catalog[int, int](nil).MakeFromArray(assocs)
		for i := range assocs {
			assocs[i].SetValue(nv)
			assocs[i] = col.Association[int, int](nil).Make(nk, nv)
		}
		checkCatalog("catalog-unaffected-by-argument-array", kit, c, m)
	case 3: // Map.MakeFromArray
		mp := col.Map[int, int](nil).MakeFromArray(assocs)
		for i := range assocs {
			assocs[i].SetValue(nv)
		}
		checkMap("map-unaffected-by-argument-array", kit, mp, m)
	case 4: // array views and key/value sequences of a catalog are copies
		c, mc := catalogOf("c", n)
		arr := c.AsArray()
		for i := range arr {
			arr[i] = col.Association[int, int](nil).Make(nk, nv)
		}
		keys := c.GetKeys()
		if u, ok := keys.(col.Updatable[int]); ok && n > 0 {
			u.SetValue(1, nk)
		}
		scribble(keys.AsArray())
		vals := c.GetValues(c.GetKeys())
		scribble(vals.AsArray())
		checkCatalog("catalog-unaffected-by-its-views", kit, c, mc)
	case 5: // views of a map
		mp, mm := c14Setup(kit, n)
		arr := mp.AsArray()
		for i := range arr {
			arr[i].SetValue(nv) // associations of a Map view are fresh objects
			arr[i] = nil
		}
		scribble(mp.GetKeys().AsArray())
		checkMap("map-unaffected-by-its-views", kit, mp, mm)
	case 6: // removing a catalog's own keys / a map's own keys
		c, _ := catalogOf("c", n)
		c.RemoveValues(c.GetKeys())
		vf.Assert("catalog-remove-own-keys", vf.And(c.GetSize() == 0, c.GetKeys().GetSize() == 0))
		mp, _ := c14Setup(kit, n)
		mp.RemoveValues(mp.GetKeys())
		vf.Assert("map-remove-own-keys", mp.GetSize() == 0)
	}
	vf.BudgetReset()
	vf.Reach("end")
}

// VF_C18_SelfOperand: bulk operations with the receiver (or a view of it) as operand behave as with a copy.
func VF_C18_SelfOperand(n, op int) {
	xs := vf.Ints("xs", n)
	vf.Budget(40 * listBudget)
	switch op {
	case 0:
		l := newList(xs)
		l.AppendValues(l)
		vf.Assert("list-append-self", eqInts(l.AsArray(), cat(xs, xs)))
	case 1:
		l := newList(xs)
		slot := vf.Uint("slot")
		vf.Assume(slot <= uint(n))
		l.InsertValues(slot, l)
		sc := vf.Concrete(int(slot), 0, n)
		vf.Assert("list-insert-self", eqInts(l.AsArray(), cat(xs[:sc], xs, xs[sc:])))
	case 2:
		if n > 0 {
			l := newList(xs)
			l.SetValues(1, l)
			vf.Assert("list-set-self", eqInts(l.AsArray(), xs))
			k := vf.Int("k")
			vf.Assume(vf.And(k >= 1, k <= n))
			kc := vf.Concrete(k, 1, n)
			l.SetValues(1, l.GetValues(k, n))
			vf.Assert("list-set-own-tail", eqInts(l.AsArray(), cat(xs[kc-1:], xs[n-kc+1:])))
		}
	case 3:
		s := col.Set[int](nil).MakeFromArray(xs)
		before := clone(s.AsArray())
		s.AddValues(s)
		vf.Assert("set-add-self", eqInts(s.AsArray(), before))
		vf.Assert("set-contains-all-self", s.ContainsAll(s))
		s.RemoveValues(s)
		vf.Assert("set-remove-self", s.GetSize() == 0)
	case 4:
		a := newArr(xs)
		if n > 0 {
			a.SetValues(1, a)
			vf.Assert("array-set-self", eqInts(a.AsArray(), xs))
		}
	case 5:
		l := newList(xs)
		l.AppendValues(col.Array[int](nil).MakeFromArray(l.AsArray()))
		vf.Assert("list-append-own-view", eqInts(l.AsArray(), cat(xs, xs)))
		vf.Assert("list-contains-self", vf.And(l.ContainsAll(l), l.ContainsAny(l) == (n > 0)))
	}
	vf.BudgetReset()
	vf.Reach("end")
}

// VF_C18_ClassFunctions: what a class function returns shares no storage with its operands.
// sizes = na*4+nb; fn: 0 Set.And, 1 Set.Or, 2 Set.Sans, 3 Set.Xor, 4 List.Concatenate, 5 Catalog.Merge, 6 Catalog.Extract.
func VF_C18_ClassFunctions(sizes, fn int) {
	na, nb := sizes/4, sizes%4
	// operands: concrete values (a: 2,4,6  b: 3,4,5 - one in common) except the first of each, which is arbitrary in 0..9
	xs, ys := make([]int, na), make([]int, nb)
	for i := range xs {
		xs[i] = 2 * (i + 1)
	}
	for i := range ys {
		ys[i] = 3 + i
	}
	if na > 0 {
		xs[0] = vf.Int("a0")
		vf.Assume(vf.And(xs[0] >= 0, xs[0] <= 9))
	}
	if nb > 0 {
		ys[0] = vf.Int("b0")
		vf.Assume(vf.And(ys[0] >= 0, ys[0] <= 9))
	}
	if fn >= 5 {
		// catalog keys must be distinct within an operand
		for i := 1; i < na; i++ {
			vf.Assume(xs[0] != xs[i])
		}
		for i := 1; i < nb; i++ {
			vf.Assume(ys[0] != ys[i])
		}
	}
	w := vf.Int("w")
	vf.Assume(vf.And(w >= 10, w <= 12))
	vf.Budget(60 * listBudget)
	switch {
	case fn <= 3:
		A := col.Set[int](nil).MakeFromArray(xs)
		B := col.Set[int](nil).MakeFromArray(ys)
		a0, b0 := clone(A.AsArray()), clone(B.AsArray())
		r := setOp(fn, A, B)
		r0 := clone(r.AsArray())
		r.AddValue(w)
		r.RemoveValue(4)
		vf.Assert("operands-unaffected-by-changes-to-the-result", vf.And(eqInts(A.AsArray(), a0), eqInts(B.AsArray(), b0)))
		r2 := setOp(fn, A, B)
		A.AddValue(w)
		B.AddValue(w + 1)
		A.RemoveValue(2)
		vf.Assert("result-unaffected-by-changes-to-the-operands", eqInts(r2.AsArray(), r0))
	case fn == 4:
		cls := col.List[int](nil)
		A, B := cls.MakeFromArray(xs), cls.MakeFromArray(ys)
		r := cls.Concatenate(A, B)
		r.AppendValue(w)
		if na+nb > 0 {
			r.SetValue(1, w)
			r.SetValue(-2, w)
		}
		vf.Assert("operands-unaffected-by-changes-to-the-result", vf.And(eqInts(A.AsArray(), xs), eqInts(B.AsArray(), ys)))
		r2 := cls.Concatenate(A, B)
		A.AppendValue(w)
		B.InsertValue(0, w)
		vf.Assert("result-unaffected-by-changes-to-the-operands", eqInts(r2.AsArray(), cat(xs, ys)))
	default:
		cls := col.Catalog[int, int](nil)
		A, B := cls.Make(), cls.Make()
		for i, k := range xs {
			A.SetValue(k, 100+i)
		}
		for i, k := range ys {
			B.SetValue(k, 200+i)
		}
		snap := func(c col.CatalogLike[int, int]) (out []int) {
			for _, a := range c.AsArray() {
				out = append(out, a.GetKey(), a.GetValue())
			}
			return
		}
		a0, b0 := snap(A), snap(B)
		mk := func() col.CatalogLike[int, int] {
			if fn == 5 {
				return cls.Merge(A, B)
			}
			return cls.Extract(A, col.List[int](nil).MakeFromArray(ys))
		}
		r := mk()
		r0 := snap(r)
		for _, k := range cat(xs, ys) {
			r.SetValue(k, w) // in-place update of every association of the result
		}
		r.SetValue(w, w)
		vf.Assert("operands-unaffected-by-changes-to-the-result", vf.And(eqInts(snap(A), a0), eqInts(snap(B), b0)))
		r2 := mk()
		for _, k := range cat(xs, ys) {
			if vf.Or(member(xs, k), false) {
				A.SetValue(k, w)
			}
			if member(ys, k) {
				B.SetValue(k, w)
			}
		}
		A.SetValue(w, w)
		vf.Assert("result-unaffected-by-changes-to-the-operands", eqInts(snap(r2), r0))
	}
	vf.BudgetReset()
	vf.Reach("end")
}

// VF_C18_QueueArguments: the sequence of input queues handed to Join (and the queue handed to Fork / Split) is read
// when the call is made: emptying or extending the caller's list right after the call changes nothing.
// Symbolic execution with the cooperative scheduler (the helper goroutine first runs when this thread blocks).
func VF_C18_QueueArguments(n, _ int) {
	cls := col.Queue[int](nil)
	var wg sync.WaitGroup
	a, b := cls.MakeWithCapacity(4), cls.MakeWithCapacity(4)
	ins := col.List[col.QueueLike[int]](nil).MakeFromArray([]col.QueueLike[int]{a, b})
	vf.Budget(40000000)
	out := cls.Join(&wg, ins)
	ins.RemoveAll() // the caller's list is the caller's again
	ins.AppendValue(cls.MakeWithCapacity(1))
	x := vf.Int("x")
	for i := 0; i < n; i++ {
		a.AddValue(x + 2*i)
		b.AddValue(x + 2*i + 1)
	}
	a.CloseQueue()
	b.CloseQueue()
	var got []int
	for i := 0; i <= 2*n+1; i++ {
		v, ok := out.RemoveHead()
		if !ok {
			break
		}
		got = append(got, v)
	}
	want := make([]int, 2*n)
	for i := range want {
		want[i] = x + i
	}
	vf.Assert("join-reads-its-argument-at-the-call", eqInts(got, want))
	wg.Wait()
	vf.BudgetReset()
	vf.Reach("end")
}
