//go:build verif

package zzvh

import (
	age "github.com/craterdog/go-collection-framework/v4/agent"
	col "github.com/craterdog/go-collection-framework/v4/collection"
	vf "github.com/craterdog/go-collection-framework/v4/zzvf"
)

// keyKit describes one key type: how to draw a fresh symbolic key and how keys compare (Go ==).
type keyKit[K comparable] struct {
	fresh func(name string) K
	eq    func(a, b K) bool
}

func intKeys() keyKit[int] {
	return keyKit[int]{func(n string) int { return vf.Int(n) }, func(a, b int) bool { return a == b }}
}
func runeKeys() keyKit[rune] {
	return keyKit[rune]{func(n string) rune { return vf.Rune(n) }, func(a, b rune) bool { return a == b }}
}
func strKeys() keyKit[string] {
	return keyKit[string]{func(n string) string { return vf.String(n, 2) }, func(a, b string) bool { return vf.StrEq(a, b) }}
}
func floatKeys() keyKit[float64] {
	return keyKit[float64]{func(n string) float64 {
		f := vf.Float64(n)
		vf.Assume(f == f) // NaN keys defeat the Go map itself
		return f
	}, func(a, b float64) bool { return a == b }}
}
func anyKeys() keyKit[any] {
	i := 0
	return keyKit[any]{func(n string) any {
		i++
		switch i % 3 {
		case 2:
			return vf.String(n, 1)
		case 0:
			return vf.Int64(n) // may carry the same number as an int key: a different key all the same
		}
		return vf.Int(n)
	}, anyEq}
}

// ptrKeys: distinct pointers whose pointees are symbolic (the solver may make them equal).
func ptrKeys() keyKit[*int] {
	return keyKit[*int]{func(n string) *int {
		p := new(int)
		*p = vf.Int(n)
		return p
	}, func(a, b *int) bool { return a == b }}
}

type omodel[K comparable] struct {
	ks []K
	vs []int
}

func (m *omodel[K]) find(kit keyKit[K], k K) int {
	for i := range m.ks {
		if kit.eq(m.ks[i], k) {
			return i
		}
	}
	return -1
}

// checkCatalog: every view of c describes exactly the associations of the model, in order.
func checkCatalog[K comparable](tag string, kit keyKit[K], c col.CatalogLike[K, int], m *omodel[K]) {
	n := len(m.ks)
	vf.Assert(tag+"-size", c.GetSize() == n)
	vf.Assert(tag+"-empty", c.IsEmpty() == (n == 0))
	keys := c.GetKeys().AsArray()
	arr := c.AsArray()
	it := c.GetIterator()
	ok := vf.And(len(keys) == n, len(arr) == n)
	if ok {
		for i := 0; i < n; i++ {
			ok = vf.And(ok, kit.eq(keys[i], m.ks[i]))
			ok = vf.And(ok, vf.And(kit.eq(arr[i].GetKey(), m.ks[i]), arr[i].GetValue() == m.vs[i]))
			a := it.GetNext()
			ok = vf.And(ok, vf.And(kit.eq(a.GetKey(), m.ks[i]), a.GetValue() == m.vs[i]))
			ok = vf.And(ok, c.GetValue(m.ks[i]) == m.vs[i]) // key index agrees with the order
		}
		ok = vf.And(ok, !it.HasNext())
	}
	vf.Assert(tag+"-views-agree-with-model", ok)
}

func c03Setup[K comparable](kit keyKit[K], n int) (col.CatalogLike[K, int], *omodel[K]) {
	m := &omodel[K]{}
	c := col.Catalog[K, int](nil).Make()
	for i := 0; i < n; i++ {
		k := kit.fresh("k" + string(rune('0'+i)))
		for _, o := range m.ks {
			vf.Assume(!kit.eq(o, k)) // pairwise distinct keys: every reachable shape
		}
		v := vf.Int("v" + string(rune('0'+i)))
		c.SetValue(k, v)
		m.ks = append(m.ks, k)
		m.vs = append(m.vs, v)
	}
	return c, m
}

func c03Step[K comparable](kit keyKit[K], n, op int) {
	vf.Budget(20 * listBudget)
	c, m := c03Setup(kit, n)
	k := kit.fresh("key")
	if w := vf.Concrete(vf.Choice("which-key", n+1), 0, n); w < n {
		k = m.ks[w] // an existing key object (matters for pointer keys); otherwise a fresh symbolic key
	}
	v := vf.Int("val")
	pos := m.find(kit, k)
	switch op {
	case 0: // SetValue: replace in place or append
		c.SetValue(k, v)
		if pos >= 0 {
			m.vs[pos] = v
		} else {
			m.ks, m.vs = append(m.ks, k), append(m.vs, v)
		}
		checkCatalog("set", kit, c, m)
	case 1: // GetValue / GetValues with present, absent and repeated keys
		exp := 0
		if pos >= 0 {
			exp = m.vs[pos]
		}
		vf.Assert("get-value", c.GetValue(k) == exp)
		got := c.GetValues(col.List[K](nil).MakeFromArray([]K{k, k})).AsArray()
		vf.Assert("get-values", vf.And(len(got) == 2, vf.And(got[0] == exp, got[1] == exp)))
		// a longer request mixing two arbitrary keys with stored ones: position i of the result belongs to key i
		k2 := kit.fresh("key2")
		req := []K{k2, k}
		if n > 0 {
			req = append(req, m.ks[0], k2, m.ks[n-1])
		}
		got2 := c.GetValues(col.List[K](nil).MakeFromArray(req)).AsArray()
		okv := len(got2) == len(req)
		if okv {
			for i, q := range req {
				e := 0
				if p := m.find(kit, q); p >= 0 {
					e = m.vs[p]
				}
				okv = vf.And(okv, got2[i] == e)
			}
		}
		vf.Assert("get-values-positionwise", okv)
		checkCatalog("get", kit, c, m)
	case 2: // RemoveValue
		got := c.RemoveValue(k)
		exp := 0
		if pos >= 0 {
			exp = m.vs[pos]
			m.ks = append(append([]K{}, m.ks[:pos]...), m.ks[pos+1:]...)
			m.vs = append(append([]int{}, m.vs[:pos]...), m.vs[pos+1:]...)
		}
		vf.Assert("remove-returns-old-value", got == exp)
		checkCatalog("remove", kit, c, m)
	case 3: // RemoveValues with a repeated key and an existing key
		seq := []K{k, k}
		if n > 0 {
			seq = append(seq, m.ks[n-1])
		}
		got := c.RemoveValues(col.List[K](nil).MakeFromArray(seq)).AsArray()
		var exp []int
		for _, q := range seq {
			p := m.find(kit, q)
			if p >= 0 {
				exp = append(exp, m.vs[p])
				m.ks = append(append([]K{}, m.ks[:p]...), m.ks[p+1:]...)
				m.vs = append(append([]int{}, m.vs[:p]...), m.vs[p+1:]...)
			} else {
				exp = append(exp, 0)
			}
		}
		vf.Assert("removevalues-returns", eqInts(got, exp))
		checkCatalog("removevalues", kit, c, m)
	case 4: // Reverse: exact; mapping preserved
		c.ReverseValues()
		r := &omodel[K]{}
		for i := n - 1; i >= 0; i-- {
			r.ks, r.vs = append(r.ks, m.ks[i]), append(r.vs, m.vs[i])
		}
		checkCatalog("reverse", kit, c, r)
	case 5: // Shuffle: only the order changes
		c.ShuffleValues()
		ok := c.GetSize() == n
		for i := range m.ks {
			ok = vf.And(ok, c.GetValue(m.ks[i]) == m.vs[i])
		}
		keys := c.GetKeys().AsArray()
		for i := range m.ks {
			cnt := 0
			for _, q := range keys {
				cnt += vf.IteInt(kit.eq(q, m.ks[i]), 1, 0)
			}
			ok = vf.And(ok, cnt == 1)
		}
		vf.Assert("shuffle-preserves-mapping", ok)
	case 6: // RemoveAll, then reuse
		c.RemoveAll()
		checkCatalog("removeall", kit, c, &omodel[K]{})
		c.SetValue(k, v)
		checkCatalog("reuse", kit, c, &omodel[K]{[]K{k}, []int{v}})
	}
	vf.BudgetReset()
	vf.Reach("end")
}

func VF_C03_StepInt(n, op int)    { c03Step(intKeys(), n, op) }
func VF_C03_StepString(n, op int) { c03Step(strKeys(), n, op) }
func VF_C03_StepRune(n, op int)   { c03Step(runeKeys(), n, op) }
func VF_C03_StepFloat(n, op int)  { c03Step(floatKeys(), n, op) }
func VF_C03_StepAny(n, op int)    { c03Step(anyKeys(), n, op) }
func VF_C03_StepPtr(n, op int)    { c03Step(ptrKeys(), n, op) }

// Sorting with a ranker on keys (uninterpreted total preorder) preserves the mapping.
func VF_C03_Sort(n, _ int) {
	kit := intKeys()
	vf.Budget(20 * listBudget)
	c, m := c03Setup(kit, n)
	// views taken before the reordering: the keys (asked for again afterwards) and an iterator that is
	// continued afterwards and must still visit every association exactly once
	keysBefore := c.GetKeys().AsArray()
	vf.Assert("keys-before", eqInts(keysBefore, m.ks))
	it := c.GetIterator()
	var seen []int
	if n > 0 {
		seen = append(seen, it.GetNext().GetKey())
	}
	c.SortValuesWithRanker(func(a, b col.AssociationLike[int, int]) age.Rank { return ufRanker(a.GetKey(), b.GetKey()) })
	for it.HasNext() {
		seen = append(seen, it.GetNext().GetKey())
	}
	vf.Assert("iterator-continued-across-the-sort-visits-each-association-once", isPerm(seen, m.ks))
	ok := c.GetSize() == n
	for i := range m.ks {
		ok = vf.And(ok, c.GetValue(m.ks[i]) == m.vs[i])
	}
	keys := c.GetKeys().AsArray()
	vf.Assert("sort-keys-permutation", isPerm(keys, m.ks))
	vf.Assert("sort-keys-ascending", ascendingUF(keys))
	arr := c.AsArray()
	for i := range arr {
		ok = vf.And(ok, arr[i].GetValue() == c.GetValue(arr[i].GetKey()))
	}
	vf.Assert("sort-preserves-mapping", ok)
	// the key view and the array view describe the same order after the sort
	var arrKeys []int
	for _, a := range arr {
		arrKeys = append(arrKeys, a.GetKey())
	}
	vf.Assert("keys-and-array-agree-after-sort", eqInts(keys, arrKeys))
	// the same through the other reorderings
	c.ReverseValues()
	vf.Assert("keys-follow-reverse", eqInts(c.GetKeys().AsArray(), rev(keys)))
	c.SortValues()
	ks2 := c.GetKeys().AsArray()
	asc := true
	for i := 0; i+1 < len(ks2); i++ {
		asc = vf.And(asc, ks2[i] < ks2[i+1])
	}
	vf.Assert("natural-sort-after-reverse-ascending", asc)
	vf.BudgetReset()
	vf.Reach("end")
}

// Constructors: from an array / sequence of associations with a repeated key, from a Go map (every iteration order).
func VF_C03_Constructors(n, form int) {
	kit := intKeys()
	ks := vf.Ints("k", n)
	vs := vf.Ints("v", n)
	vf.Budget(20 * listBudget)
	cls := col.Catalog[int, int](nil)
	// model: first position, last value
	m := &omodel[int]{}
	for i := range ks {
		if p := m.find(kit, ks[i]); p >= 0 {
			m.vs[p] = vs[i]
		} else {
			m.ks, m.vs = append(m.ks, ks[i]), append(m.vs, vs[i])
		}
	}
	var assocs []col.AssociationLike[int, int]
	for i := range ks {
		assocs = append(assocs, col.Association[int, int](nil).Make(ks[i], vs[i]))
	}
	switch form {
	case 0:
		checkCatalog("from-array", kit, cls.MakeFromArray(assocs), m)
	case 1:
		checkCatalog("from-sequence", kit, cls.MakeFromSequence(col.List[col.AssociationLike[int, int]](nil).MakeFromArray(assocs)), m)
	case 2:
		gm := map[int]int{}
		for i := range ks {
			gm[ks[i]] = vs[i]
		}
		c := cls.MakeFromMap(gm)
		ok := c.GetSize() == len(m.ks)
		for i := range m.ks {
			ok = vf.And(ok, c.GetValue(m.ks[i]) == m.vs[i])
		}
		arr := c.AsArray()
		for i := range arr {
			ok = vf.And(ok, arr[i].GetValue() == c.GetValue(arr[i].GetKey()))
			ok = vf.And(ok, m.find(kit, arr[i].GetKey()) >= 0)
		}
		vf.Assert("from-map-same-associations", ok)
	case 3:
		checkCatalog("make-empty", kit, cls.Make(), &omodel[int]{})
	case 4, 5:
		// a catalog built from another catalog (as a sequence, or from its array view) holds its own associations:
		// replacing a value in either leaves the other describing what its own history says
		src := cls.MakeFromArray(assocs)
		var cp col.CatalogLike[int, int]
		if form == 4 {
			cp = cls.MakeFromSequence(src)
		} else {
			cp = cls.MakeFromArray(src.AsArray())
		}
		checkCatalog("copy", kit, cp, m)
		if len(m.ks) > 0 {
			x := vf.Int("x")
			last := len(m.ks) - 1
			cp.SetValue(m.ks[0], x)
			checkCatalog("source-after-set-in-copy", kit, src, m)
			m2 := &omodel[int]{ks: append([]int{}, m.ks...), vs: append([]int{}, m.vs...)}
			m2.vs[0] = x
			src.SetValue(m.ks[last], x+1)
			checkCatalog("copy-after-set-in-source", kit, cp, m2)
		}
	}
	vf.BudgetReset()
	vf.Reach("end")
}
