//go:build verif

package zzvh

import (
	"sync"

	col "github.com/craterdog/go-collection-framework/v4/collection"
	vf "github.com/craterdog/go-collection-framework/v4/zzvf"
)

// feeder adds the values 1..n to the input and then closes it.
func feeder(in col.QueueLike[int], n int) func() {
	return func() {
		for v := 1; v <= n; v++ {
			in.AddValue(v)
		}
		in.CloseQueue()
	}
}

// reader drains output k until it is closed, recording what it received and in which order.
func reader(out col.QueueLike[int], k, max int) func() {
	return func() {
		i := 0
		for ; i <= max; i++ {
			v, ok := out.RemoveHead()
			if !ok {
				vf.Put("closed."+itoa(k), 1)
				break
			}
			vf.Put("got."+itoa(k)+"."+itoa(i), v)
		}
		vf.Put("count."+itoa(k), i)
	}
}

// VF_C06_Fork: every output receives exactly the input sequence, in order, and is closed afterwards;
// the helper finishes (wait group back to zero).  nc = n*4 + capacity, fan-out from the second parameter.
func VF_C06_Fork(nc, fan int) {
	n, c := nc/4, nc%4
	vf.EventBound((n+1)*(8+12*fan) + 8*fan + 12)
	in := col.Queue[int](nil).MakeWithCapacity(uint(c))
	var wg sync.WaitGroup
	outs := col.Queue[int](nil).Fork(&wg, in, uint(fan)).AsArray()
	vf.Share(in)
	vf.ShareWG(&wg)
	for _, o := range outs {
		vf.Share(o)
	}
	vf.Go(feeder(in, n))
	for k, o := range outs {
		vf.Go(reader(o, k, n))
	}
	vf.Go(func() {
		wg.Wait()
		vf.Assert("helper-goroutines-finished-when-the-wait-group-returns-to-zero", vf.HelpersDone())
		vf.Put("helpers.done", 1)
	})
	vf.TraceStart()
	vf.WaitAll()
	for k := range outs {
		vf.Assert("output-closed-after-input-drained", vf.Get("closed."+itoa(k)) == 1)
		vf.Assert("output-received-every-value", vf.Get("count."+itoa(k)) == n)
		for i := 0; i < n; i++ {
			vf.Assert("output-in-input-order", vf.Get("got."+itoa(k)+"."+itoa(i)) == i+1)
		}
	}
	vf.Assert("helpers-finished", vf.Get("helpers.done") == 1)
	vf.Reach("end")
}

// VF_C06_Split: every input value goes to exactly one output, round robin.
func VF_C06_Split(nc, fan int) {
	n, c := nc/4, nc%4
	vf.EventBound((n+1)*(8+12*fan) + 8*fan + 12)
	in := col.Queue[int](nil).MakeWithCapacity(uint(c))
	var wg sync.WaitGroup
	outs := col.Queue[int](nil).Split(&wg, in, uint(fan)).AsArray()
	vf.Share(in)
	vf.ShareWG(&wg)
	for _, o := range outs {
		vf.Share(o)
	}
	vf.Go(feeder(in, n))
	for k, o := range outs {
		vf.Go(reader(o, k, n))
	}
	vf.Go(func() {
		wg.Wait()
		vf.Assert("helper-goroutines-finished-when-the-wait-group-returns-to-zero", vf.HelpersDone())
		vf.Put("helpers.done", 1)
	})
	vf.TraceStart()
	vf.WaitAll()
	for k := range outs {
		vf.Assert("output-closed-after-input-drained", vf.Get("closed."+itoa(k)) == 1)
		want := 0
		for v := 1; v <= n; v++ {
			if (v-1)%fan == k {
				vf.Assert("round-robin-partition", vf.Get("got."+itoa(k)+"."+itoa(want)) == v)
				want++
			}
		}
		vf.Assert("each-value-to-exactly-one-output", vf.Get("count."+itoa(k)) == want)
	}
	vf.Assert("helpers-finished", vf.Get("helpers.done") == 1)
	vf.Reach("end")
}

// VF_C06_SplitJoin: Split followed by Join delivers exactly the input sequence in order.
func VF_C06_SplitJoin(nc, fan int) {
	n, c := nc/4, nc%4
	vf.EventBound((n+1)*30 + 8*fan + 12)
	in := col.Queue[int](nil).MakeWithCapacity(uint(c))
	var wg sync.WaitGroup
	cls := col.Queue[int](nil)
	mids := cls.Split(&wg, in, uint(fan))
	out := cls.Join(&wg, mids)
	vf.Share(in)
	vf.ShareWG(&wg)
	for _, o := range mids.AsArray() {
		vf.Share(o)
	}
	vf.Share(out)
	vf.Go(feeder(in, n))
	vf.Go(reader(out, 0, n))
	vf.Go(func() {
		wg.Wait()
		vf.Assert("helper-goroutines-finished-when-the-wait-group-returns-to-zero", vf.HelpersDone())
		vf.Put("helpers.done", 1)
	})
	vf.TraceStart()
	vf.WaitAll()
	vf.Assert("output-closed-after-input-drained", vf.Get("closed.0") == 1)
	vf.Assert("nothing-lost-or-duplicated", vf.Get("count.0") == n)
	for i := 0; i < n; i++ {
		vf.Assert("input-order-preserved", vf.Get("got.0."+itoa(i)) == i+1)
	}
	vf.Assert("helpers-finished", vf.Get("helpers.done") == 1)
	vf.Reach("end")
}

// VF_C06_WaitGroup: when the caller's wait group returns to zero the helper has finished: every output
// already holds all the values (no readers; the stream fits the capacity).  kind 0 Fork, 1 Split.
func VF_C06_WaitGroup(nc, kind int) {
	n, c := nc/4, nc%4
	if n > c {
		vf.Reach("end")
		return
	}
	fan := 2
	vf.EventBound((n+1)*(8+12*fan) + 8*fan + 12 + 10*(n+1)*fan)
	in := col.Queue[int](nil).MakeWithCapacity(uint(c))
	var wg sync.WaitGroup
	var outs []col.QueueLike[int]
	if kind == 0 {
		outs = col.Queue[int](nil).Fork(&wg, in, uint(fan)).AsArray()
	} else {
		outs = col.Queue[int](nil).Split(&wg, in, uint(fan)).AsArray()
	}
	vf.Share(in)
	vf.ShareWG(&wg)
	for _, o := range outs {
		vf.Share(o)
	}
	vf.Go(feeder(in, n))
	vf.Go(func() {
		wg.Wait()
		vf.Assert("helper-goroutines-finished-when-the-wait-group-returns-to-zero", vf.HelpersDone())
		total := 0
		for _, o := range outs {
			total += o.GetSize()
		}
		if kind == 0 {
			vf.Assert("helper-finished-when-wait-returns", total == n*fan)
		} else {
			vf.Assert("helper-finished-when-wait-returns", total == n)
		}
		// every output can now be drained to its end: it holds its share in order and is closed
		for k, o := range outs {
			next := 1
			if kind == 1 {
				next = k + 1
			}
			for i := 0; i <= n; i++ {
				v, ok := o.RemoveHead()
				if !ok {
					break
				}
				vf.Assert("output-values-in-order", v == next)
				if kind == 0 {
					next++
				} else {
					next += fan
				}
			}
			if kind == 0 {
				vf.Assert("output-complete", next == n+1)
			} else {
				vf.Assert("output-complete", next > n)
			}
		}
	})
	vf.TraceStart()
	vf.WaitAll()
	vf.Reach("end")
}

// ---- element types (symbolic execution with the cooperative scheduler, not the BMC) ----
//
// The BMC programs carry small integers.  Fork / Split / Join are generic: this harness pushes streams
// of other element types - with values a helper might mistake for "no value" (empty string, nil
// pointer, nil or empty slice, nil interface, zero) - through Fork, Split and Split+Join and compares what
// comes out.  Which value is the special one at each position is a symbolic choice.

func c06stream[T any](n int, special []T, ordinary func(i int) T) []T {
	xs := make([]T, n)
	for i := range xs {
		k := vf.Choice("special"+itoa(i), len(special)+1)
		if k < len(special) {
			xs[i] = special[k]
		} else {
			xs[i] = ordinary(i)
		}
	}
	return xs
}

func c06run[T any](xs []T, what, fan int, same func(a, b T) bool) {
	cls := col.Queue[T](nil)
	in := cls.MakeWithCapacity(uint(len(xs) + 1))
	for _, x := range xs {
		in.AddValue(x)
	}
	in.CloseQueue()
	var wg sync.WaitGroup
	drain := func(q col.QueueLike[T]) []T {
		var got []T
		for i := 0; i <= len(xs)+1; i++ {
			v, ok := q.RemoveHead()
			if !ok {
				return got
			}
			got = append(got, v)
		}
		vf.Assert("output-closed-after-input-drained", false)
		return got
	}
	eq := func(got, want []T) bool {
		if len(got) != len(want) {
			return false
		}
		for i := range got {
			if !same(got[i], want[i]) {
				return false
			}
		}
		return true
	}
	switch what {
	case 0: // Fork
		outs := cls.Fork(&wg, in, uint(fan)).AsArray()
		for _, o := range outs {
			vf.Assert("fork-output-is-the-input-sequence", eq(drain(o), xs))
		}
	case 1: // Split
		outs := cls.Split(&wg, in, uint(fan)).AsArray()
		for k, o := range outs {
			var want []T
			for i := k; i < len(xs); i += fan {
				want = append(want, xs[i])
			}
			vf.Assert("split-round-robin-share", eq(drain(o), want))
		}
	case 2: // Split then Join
		out := cls.Join(&wg, cls.Split(&wg, in, uint(fan)))
		vf.Assert("split-join-is-the-input-sequence", eq(drain(out), xs))
	}
	wg.Wait()
	vf.Assert("helpers-finished", vf.Quiesce() == 0)
}

// VF_C06_ElementTypes: n = stream length; sel = elemType*6 + what*2 + (fan-2); elemType 0 string, 1 *int, 2 []byte, 3 any.
func VF_C06_ElementTypes(n, sel int) {
	et, what, fan := sel/6, (sel%6)/2, sel%2+2
	vf.Budget(40000000)
	switch et {
	case 0:
		xs := c06stream(n, []string{""}, func(i int) string { return "v" + itoa(i) })
		c06run(xs, what, fan, func(a, b string) bool { return a == b })
	case 1:
		cells := make([]int, n)
		xs := c06stream(n, []*int{nil}, func(i int) *int { return &cells[i] })
		c06run(xs, what, fan, func(a, b *int) bool { return a == b })
	case 2:
		xs := c06stream(n, [][]byte{nil, {}}, func(i int) []byte { return []byte{byte(i)} })
		c06run(xs, what, fan, func(a, b []byte) bool {
			return (a == nil) == (b == nil) && len(a) == len(b) && (len(a) == 0 || a[0] == b[0])
		})
	case 3:
		xs := c06stream(n, []any{nil, 0, ""}, func(i int) any { return i + 1 })
		c06run(xs, what, fan, func(a, b any) bool { return a == b })
	}
	vf.BudgetReset()
	vf.Reach("end")
}
