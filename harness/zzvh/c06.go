//go:build verif

package zzvh

import (
	"sync"

	col "github.com/craterdog/go-collection-framework/v4/collection"
	vf "github.com/craterdog/go-collection-framework/v4/zzvf"
)

// feeder adds the values 1..n to the input and then closes it.
func feeder(in col.QueueLike[int], n int) func() {
	return func() {
		for v := 1; v <= n; v++ {
			in.AddValue(v)
		}
		in.CloseQueue()
	}
}

// reader drains output k until it is closed, recording what it received and in which order.
func reader(out col.QueueLike[int], k, max int) func() {
	return func() {
		i := 0
		for ; i <= max; i++ {
			v, ok := out.RemoveHead()
			if !ok {
				vf.Put("closed."+itoa(k), 1)
				break
			}
			vf.Put("got."+itoa(k)+"."+itoa(i), v)
		}
		vf.Put("count."+itoa(k), i)
	}
}

// VF_C06_Fork: every output receives exactly the input sequence, in order, and is closed afterwards;
// the helper finishes (wait group back to zero).  nc = n*4 + capacity, fan-out from the second parameter.
func VF_C06_Fork(nc, fan int) {
	n, c := nc/4, nc%4
	vf.EventBound((n+1)*(8+12*fan) + 8*fan + 12)
	in := col.Queue[int](nil).MakeWithCapacity(uint(c))
	var wg sync.WaitGroup
	outs := col.Queue[int](nil).Fork(&wg, in, uint(fan)).AsArray()
	vf.Share(in)
	vf.ShareWG(&wg)
	for _, o := range outs {
		vf.Share(o)
	}
	vf.Go(feeder(in, n))
	for k, o := range outs {
		vf.Go(reader(o, k, n))
	}
	vf.Go(func() { wg.Wait(); vf.Put("helpers.done", 1) })
	vf.TraceStart()
	vf.WaitAll()
	for k := range outs {
		vf.Assert("output-closed-after-input-drained", vf.Get("closed."+itoa(k)) == 1)
		vf.Assert("output-received-every-value", vf.Get("count."+itoa(k)) == n)
		for i := 0; i < n; i++ {
			vf.Assert("output-in-input-order", vf.Get("got."+itoa(k)+"."+itoa(i)) == i+1)
		}
	}
	vf.Assert("helpers-finished", vf.Get("helpers.done") == 1)
	vf.Reach("end")
}

// VF_C06_Split: every input value goes to exactly one output, round robin.
func VF_C06_Split(nc, fan int) {
	n, c := nc/4, nc%4
	vf.EventBound((n+1)*(8+12*fan) + 8*fan + 12)
	in := col.Queue[int](nil).MakeWithCapacity(uint(c))
	var wg sync.WaitGroup
	outs := col.Queue[int](nil).Split(&wg, in, uint(fan)).AsArray()
	vf.Share(in)
	vf.ShareWG(&wg)
	for _, o := range outs {
		vf.Share(o)
	}
	vf.Go(feeder(in, n))
	for k, o := range outs {
		vf.Go(reader(o, k, n))
	}
	vf.Go(func() { wg.Wait(); vf.Put("helpers.done", 1) })
	vf.TraceStart()
	vf.WaitAll()
	for k := range outs {
		vf.Assert("output-closed-after-input-drained", vf.Get("closed."+itoa(k)) == 1)
		want := 0
		for v := 1; v <= n; v++ {
			if (v-1)%fan == k {
				vf.Assert("round-robin-partition", vf.Get("got."+itoa(k)+"."+itoa(want)) == v)
				want++
			}
		}
		vf.Assert("each-value-to-exactly-one-output", vf.Get("count."+itoa(k)) == want)
	}
	vf.Assert("helpers-finished", vf.Get("helpers.done") == 1)
	vf.Reach("end")
}

// VF_C06_SplitJoin: Split followed by Join delivers exactly the input sequence in order.
func VF_C06_SplitJoin(nc, fan int) {
	n, c := nc/4, nc%4
	vf.EventBound((n+1)*30 + 8*fan + 12)
	in := col.Queue[int](nil).MakeWithCapacity(uint(c))
	var wg sync.WaitGroup
	cls := col.Queue[int](nil)
	mids := cls.Split(&wg, in, uint(fan))
	out := cls.Join(&wg, mids)
	vf.Share(in)
	vf.ShareWG(&wg)
	for _, o := range mids.AsArray() {
		vf.Share(o)
	}
	vf.Share(out)
	vf.Go(feeder(in, n))
	vf.Go(reader(out, 0, n))
	vf.Go(func() { wg.Wait(); vf.Put("helpers.done", 1) })
	vf.TraceStart()
	vf.WaitAll()
	vf.Assert("output-closed-after-input-drained", vf.Get("closed.0") == 1)
	vf.Assert("nothing-lost-or-duplicated", vf.Get("count.0") == n)
	for i := 0; i < n; i++ {
		vf.Assert("input-order-preserved", vf.Get("got.0."+itoa(i)) == i+1)
	}
	vf.Assert("helpers-finished", vf.Get("helpers.done") == 1)
	vf.Reach("end")
}

// VF_C06_WaitGroup: when the caller's wait group returns to zero the helper has finished: every output
// already holds all the values (no readers; the stream fits the capacity).  kind 0 Fork, 1 Split.
func VF_C06_WaitGroup(nc, kind int) {
	n, c := nc/4, nc%4
	if n > c {
		vf.Reach("end")
		return
	}
	fan := 2
	vf.EventBound((n+1)*(8+12*fan) + 8*fan + 12 + 10*(n+1)*fan)
	in := col.Queue[int](nil).MakeWithCapacity(uint(c))
	var wg sync.WaitGroup
	var outs []col.QueueLike[int]
	if kind == 0 {
		outs = col.Queue[int](nil).Fork(&wg, in, uint(fan)).AsArray()
	} else {
		outs = col.Queue[int](nil).Split(&wg, in, uint(fan)).AsArray()
	}
	vf.Share(in)
	vf.ShareWG(&wg)
	for _, o := range outs {
		vf.Share(o)
	}
	vf.Go(feeder(in, n))
	vf.Go(func() {
		wg.Wait()
		total := 0
		for _, o := range outs {
			total += o.GetSize()
		}
		if kind == 0 {
			vf.Assert("helper-finished-when-wait-returns", total == n*fan)
		} else {
			vf.Assert("helper-finished-when-wait-returns", total == n)
		}
		// every output can now be drained to its end: it holds its share in order and is closed
		for k, o := range outs {
			next := 1
			if kind == 1 {
				next = k + 1
			}
			for i := 0; i <= n; i++ {
				v, ok := o.RemoveHead()
				if !ok {
					break
				}
				vf.Assert("output-values-in-order", v == next)
				if kind == 0 {
					next++
				} else {
					next += fan
				}
			}
			if kind == 0 {
				vf.Assert("output-complete", next == n+1)
			} else {
				vf.Assert("output-complete", next > n)
			}
		}
	})
	vf.TraceStart()
	vf.WaitAll()
	vf.Reach("end")
}
