//go:build verif

package zzvh

import (
	col "github.com/craterdog/go-collection-framework/v4/collection"
	vf "github.com/craterdog/go-collection-framework/v4/zzvf"
)

func rev(xs []int) []int {
	out := make([]int, len(xs))
	for i := range xs {
		out[len(xs)-1-i] = xs[i]
	}
	return out
}

// stackWith builds a stack of capacity c (0 = default) holding xs pushed in order.
func stackWith(c int, xs []int) col.StackLike[int] {
	var s col.StackLike[int]
	if c == 0 {
		s = col.Stack[int](nil).Make()
	} else {
		s = col.Stack[int](nil).MakeWithCapacity(uint(c))
	}
	for _, x := range xs {
		s.AddValue(x)
	}
	return s
}

// VF_C13_Step: one operation from any stack state of size n <= capacity c (c = 0: default capacity).
func VF_C13_Step(n, c int) {
	capacity := c
	if c == 0 {
		capacity = int(col.Stack[int](nil).DefaultCapacity())
	}
	if n > capacity {
		vf.Reach("end")
		return
	}
	xs := vf.Ints("xs", n)
	v := vf.Int("v")

	// views of the pre-state
	s := stackWith(c, xs)
	vf.Assert("capacity", int(s.GetCapacity()) == capacity)
	vf.Assert("size", s.GetSize() == n)
	vf.Assert("empty", s.IsEmpty() == (n == 0))
	vf.Assert("array-top-to-bottom", eqInts(s.AsArray(), rev(xs)))
	vf.Assert("iteration-top-to-bottom", eqInts(iterInts(s.GetIterator()), rev(xs)))

	// AddValue
	vf.Budget(listBudget)
	p, _ := vf.Panics(func() { s.AddValue(v) })
	vf.Assert("push-panics-iff-full", p == (n == capacity))
	if p {
		vf.Assert("push-full-unchanged", eqInts(s.AsArray(), rev(xs)))
	} else {
		vf.Assert("push-on-top", eqInts(s.AsArray(), cat([]int{v}, rev(xs))))
	}
	vf.Assert("size<=capacity-after-push", s.GetSize() <= int(s.GetCapacity()))

	// RemoveTop
	s2 := stackWith(c, xs)
	var got int
	p2, _ := vf.Panics(func() { got = s2.RemoveTop() })
	vf.Assert("pop-panics-iff-empty", p2 == (n == 0))
	if p2 {
		vf.Assert("pop-empty-unchanged", s2.GetSize() == 0)
	} else {
		vf.Assert("pop-returns-last-pushed", got == xs[n-1])
		vf.Assert("pop-removes-top", eqInts(s2.AsArray(), rev(xs[:n-1])))
	}

	// push then pop is the identity
	if n < capacity {
		s3 := stackWith(c, xs)
		s3.AddValue(v)
		vf.Assert("push-pop", s3.RemoveTop() == v)
		vf.Assert("push-pop-state", eqInts(s3.AsArray(), rev(xs)))
	}

	// RemoveAll
	s4 := stackWith(c, xs)
	s4.RemoveAll()
	vf.Assert("removeall", vf.And(s4.GetSize() == 0, s4.IsEmpty()))
	vf.Assert("removeall-capacity", int(s4.GetCapacity()) == capacity)
	vf.BudgetReset()
	vf.Reach("end")
}

// VF_C13_Constructors: stacks built from n initial values (n spans the default capacity).
func VF_C13_Constructors(n, form int) {
	xs := vf.Ints("xs", n)
	cls := col.Stack[int](nil)
	var s col.StackLike[int]
	switch form {
	case 0:
		s = cls.MakeFromArray(xs)
	case 1:
		s = cls.MakeFromSequence(newArr(xs))
	case 2:
		// from a List that lives on: the stack is built from the values, not on top of the caller's list
		src := newList(xs)
		s = cls.MakeFromSequence(src)
		s2 := cls.MakeFromSequence(src)
		src.AppendValue(vf.Int("later"))
		src.InsertValue(0, vf.Int("later2"))
		if n > 0 {
			src.SetValue(1, vf.Int("later3"))
		}
		if s2.GetSize() < int(s2.GetCapacity()) {
			s2.AddValue(vf.Int("pushed"))
		}
	}
	vf.Class("more-values-than-default-capacity", n > int(cls.DefaultCapacity()))
	vf.Assert("size<=capacity", s.GetSize() <= int(s.GetCapacity()))
	vf.Assert("contents-top-to-bottom", eqInts(s.AsArray(), xs))
	// the array view is a copy: writing into it does not change the stack
	view := s.AsArray()
	for i := range view {
		view[i] = vf.Int("scribble")
	}
	vf.Assert("stack-unaffected-by-writes-into-its-array-view", eqInts(s.AsArray(), xs))
	if n > 0 {
		vf.Assert("top-is-first", s.RemoveTop() == xs[0])
	}
	p, _ := vf.Panics(func() { cls.MakeWithCapacity(0) })
	vf.Assert("zero-capacity-rejected", p)
	vf.Reach("end")
}
