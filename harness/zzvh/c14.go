//go:build verif

package zzvh

import (
	col "github.com/craterdog/go-collection-framework/v4/collection"
	vf "github.com/craterdog/go-collection-framework/v4/zzvf"
)

// checkMap: the unordered views of mp contain each association of the model exactly once.
func checkMap[K comparable](tag string, kit keyKit[K], mp col.MapLike[K, int], m *omodel[K]) {
	n := len(m.ks)
	vf.Assert(tag+"-size", mp.GetSize() == n)
	vf.Assert(tag+"-empty", mp.IsEmpty() == (n == 0))
	keys := mp.GetKeys().AsArray()
	arr := mp.AsArray()
	it := mp.GetIterator()
	var itA []col.AssociationLike[K, int]
	for it.HasNext() {
		itA = append(itA, it.GetNext())
	}
	ok := vf.And(len(keys) == n, vf.And(len(arr) == n, len(itA) == n))
	if ok {
		for i := 0; i < n; i++ {
			var ck, ca, ci int8
			for j := 0; j < n; j++ {
				ck += int8(vf.IteInt(kit.eq(keys[j], m.ks[i]), 1, 0))
				ca += int8(vf.IteInt(vf.And(kit.eq(arr[j].GetKey(), m.ks[i]), arr[j].GetValue() == m.vs[i]), 1, 0))
				ci += int8(vf.IteInt(vf.And(kit.eq(itA[j].GetKey(), m.ks[i]), itA[j].GetValue() == m.vs[i]), 1, 0))
			}
			ok = vf.And(ok, vf.And(ck == 1, vf.And(ca == 1, ci == 1)))
			ok = vf.And(ok, mp.GetValue(m.ks[i]) == m.vs[i])
		}
	}
	vf.Assert(tag+"-views-agree-with-go-map", ok)
}

func c14Setup[K comparable](kit keyKit[K], n int) (col.MapLike[K, int], *omodel[K]) {
	m := &omodel[K]{}
	mp := col.Map[K, int](nil).Make()
	for i := 0; i < n; i++ {
		k := kit.fresh("k" + string(rune('0'+i)))
		for _, o := range m.ks {
			vf.Assume(!kit.eq(o, k))
		}
		v := vf.Int("v" + string(rune('0'+i)))
		mp.SetValue(k, v)
		m.ks = append(m.ks, k)
		m.vs = append(m.vs, v)
	}
	return mp, m
}

func (m *omodel[K]) remove(p int) {
	m.ks = append(append([]K{}, m.ks[:p]...), m.ks[p+1:]...)
	m.vs = append(append([]int{}, m.vs[:p]...), m.vs[p+1:]...)
}

func c14Step[K comparable](kit keyKit[K], n, op int) {
	vf.Budget(20 * listBudget)
	mp, m := c14Setup(kit, n)
	k := kit.fresh("key")
	v := vf.Int("val")
	pos := m.find(kit, k)
	switch op {
	case 0:
		mp.SetValue(k, v)
		if pos >= 0 {
			m.vs[pos] = v
		} else {
			m.ks, m.vs = append(m.ks, k), append(m.vs, v)
		}
		checkMap("set", kit, mp, m)
	case 1:
		exp := 0
		if pos >= 0 {
			exp = m.vs[pos]
		}
		vf.Assert("get-value", mp.GetValue(k) == exp)
		got := mp.GetValues(col.List[K](nil).MakeFromArray([]K{k, k})).AsArray()
		vf.Assert("get-values", vf.And(len(got) == 2, vf.And(got[0] == exp, got[1] == exp)))
		// a longer request mixing two arbitrary keys with stored ones: position i of the result belongs to key i
		k2 := kit.fresh("key2")
		req := []K{k2, k}
		if n > 0 {
			req = append(req, m.ks[0], k2, m.ks[n-1])
		}
		got2 := mp.GetValues(col.List[K](nil).MakeFromArray(req)).AsArray()
		okv := len(got2) == len(req)
		if okv {
			for i, q := range req {
				e := 0
				if p := m.find(kit, q); p >= 0 {
					e = m.vs[p]
				}
				okv = vf.And(okv, got2[i] == e)
			}
		}
		vf.Assert("get-values-positionwise", okv)
		checkMap("get", kit, mp, m)
	case 2:
		got := mp.RemoveValue(k)
		exp := 0
		if pos >= 0 {
			exp = m.vs[pos]
			m.remove(pos)
		}
		vf.Assert("remove-returns-old-value", got == exp)
		checkMap("remove", kit, mp, m)
	case 3:
		seq := []K{k, k}
		if n > 0 {
			seq = append(seq, m.ks[n-1])
		}
		got := mp.RemoveValues(col.List[K](nil).MakeFromArray(seq)).AsArray()
		var exp []int
		for _, q := range seq {
			if p := m.find(kit, q); p >= 0 {
				exp = append(exp, m.vs[p])
				m.remove(p)
			} else {
				exp = append(exp, 0)
			}
		}
		vf.Assert("removevalues-returns", eqInts(got, exp))
		checkMap("removevalues", kit, mp, m)
	case 4:
		mp.RemoveAll()
		checkMap("removeall", kit, mp, &omodel[K]{})
		mp.SetValue(k, v)
		checkMap("reuse", kit, mp, &omodel[K]{[]K{k}, []int{v}})
	}
	vf.BudgetReset()
	vf.Reach("end")
}

func VF_C14_StepInt(n, op int)    { c14Step(intKeys(), n, op) }
func VF_C14_StepString(n, op int) { c14Step(strKeys(), n, op) }
func VF_C14_StepRune(n, op int)   { c14Step(runeKeys(), n, op) }
func VF_C14_StepAny(n, op int)    { c14Step(anyKeys(), n, op) }

// Constructors with repeated keys: the last association wins.
func VF_C14_Constructors(n, form int) {
	kit := intKeys()
	ks := vf.Ints("k", n)
	vs := vf.Ints("v", n)
	vf.Budget(20 * listBudget)
	cls := col.Map[int, int](nil)
	m := &omodel[int]{}
	for i := range ks {
		if p := m.find(kit, ks[i]); p >= 0 {
			m.vs[p] = vs[i]
		} else {
			m.ks, m.vs = append(m.ks, ks[i]), append(m.vs, vs[i])
		}
	}
	var assocs []col.AssociationLike[int, int]
	for i := range ks {
		assocs = append(assocs, col.Association[int, int](nil).Make(ks[i], vs[i]))
	}
	switch form {
	case 0:
		checkMap("from-array", kit, cls.MakeFromArray(assocs), m)
	case 1:
		checkMap("from-sequence", kit, cls.MakeFromSequence(col.List[col.AssociationLike[int, int]](nil).MakeFromArray(assocs)), m)
	case 2:
		gm := map[int]int{}
		for i := range ks {
			gm[ks[i]] = vs[i]
		}
		mp := cls.MakeFromMap(gm)
		checkMap("from-map", kit, mp, m)
		// the Go map argument is copied
		nk := vf.Int("nk")
		gm[nk] = 1
		delete(gm, nk)
		checkMap("from-map-after-arg-mutation", kit, mp, m)
		// a nil Go map is an empty map like any other: the result is a usable, empty Map
		if n == 0 {
			var none map[int]int
			em := cls.MakeFromMap(none)
			checkMap("from-nil-map", kit, em, &omodel[int]{})
			em.SetValue(nk, 5)
			checkMap("from-nil-map-then-set", kit, em, &omodel[int]{[]int{nk}, []int{5}})
		}
	case 3:
		checkMap("make-empty", kit, cls.Make(), &omodel[int]{})
		// a sequence of associations from another map
		src, sm := c14Setup(kit, n)
		built := cls.MakeFromSequence(src)
		checkMap("from-map-sequence", kit, built, sm)
		// the new map is a map of its own: later updates of either side do not reach the other
		nk, nv := 4242, 7
		for _, o := range sm.ks {
			vf.Assume(o != nk)
		}
		built.SetValue(nk, nv)
		checkMap("source-unaffected-by-updates-of-the-built-map", kit, src, sm)
		built.RemoveValue(nk)
		src.SetValue(nk, nv)
		if n > 0 {
			src.RemoveValue(sm.ks[0])
		}
		checkMap("built-map-unaffected-by-updates-of-the-source", kit, built, sm)
	}
	vf.BudgetReset()
	vf.Reach("end")
}
