//go:build verif

package zzvh

import (
	"strconv"
	"strings"

	mod "github.com/craterdog/go-collection-framework/v4"
	cdc "github.com/craterdog/go-collection-framework/v4/cdcn"
	col "github.com/craterdog/go-collection-framework/v4/collection"
	vf "github.com/craterdog/go-collection-framework/v4/zzvf"
)

const diagPrefix = "An unexpected token was received by the parser: Token [type: "

// lineAndPosition extracts "line: N, position: M" from the known part of a diagnostic.
func lineAndPosition(text string) (line, pos int, ok bool) {
	i := strings.Index(text, ", line: ")
	if i < 0 {
		return 0, 0, false
	}
	rest := text[i+len(", line: "):]
	j := strings.Index(rest, ", position: ")
	if j < 0 {
		return 0, 0, false
	}
	l, err1 := strconv.Atoi(rest[:j])
	rest = rest[j+len(", position: "):]
	k := strings.Index(rest, "]")
	if k < 0 {
		return 0, 0, false
	}
	p, err2 := strconv.Atoi(rest[:k])
	return l, p, err1 == nil && err2 == nil
}

// totalParse: ParseSource on src either returns or panics with a located syntax diagnostic;
// never a Go run-time error; no scanner goroutine is left behind.
func totalParse(src string, lines int) {
	vf.Budget(6000000)
	p, rt, msg := vf.PanicText(func() { mod.ParseSource(src) })
	vf.BudgetReset()
	vf.Assert("no-runtime-error", !rt)
	if p && !rt {
		text := vf.KnownText(msg)
		vf.Assert("textual-syntax-diagnostic", strings.HasPrefix(text, diagPrefix))
		l, pos, ok := lineAndPosition(text)
		vf.Assert("diagnostic-names-line-and-position", ok)
		if ok && lines > 0 {
			vf.Assert("line-within-source", l >= 1 && l <= lines)
			vf.Assert("position-positive", pos >= 1)
		}
	}
	vf.Assert("no-scanner-goroutine-left", vf.Quiesce() == 0)
}

// VF_C12_Bytes: every string of L arbitrary bytes (so every rune, including invalid UTF-8).
func VF_C12_Bytes(L, _ int) {
	src := vf.String("s", L)
	totalParse(src, 0)
	vf.Reach("end")
}

// VF_C12_Prefix: a valid document cut after its first k bytes, followed by one arbitrary byte.
var c12docs = []string{
	"[1, 2](List)\n",
	"[\n    \"a\": 1\n    'b': [ ](Set)\n](Catalog)\n",
	"[:](Map)\n",
	"[0x1f, true, nil, 1.5, (1.0+2.0i)](Array)\n",
	"[[ ](Stack), [1](Queue)](List)\n",
}

func VF_C12_Prefix(doc, k int) {
	d := c12docs[doc]
	if k > len(d) {
		vf.Reach("end")
		return
	}
	src := d[:k] + vf.String("x", 1)
	totalParse(src, strings.Count(d[:k], "\n")+2)
	vf.Reach("end")
}

// VF_C12_Substitute: one byte of a valid document replaced by an arbitrary byte.
func VF_C12_Substitute(doc, k int) {
	d := c12docs[doc]
	if k >= len(d) {
		vf.Reach("end")
		return
	}
	src := d[:k] + vf.String("x", 1) + d[k+1:]
	totalParse(src, strings.Count(d, "\n")+2)
	vf.Reach("end")
}

// VF_C12_Delete: one byte of a valid document deleted; kinds not matching the type context.
func VF_C12_Delete(doc, k int) {
	d := c12docs[doc]
	if k >= len(d) {
		vf.Reach("end")
		return
	}
	totalParse(d[:k]+d[k+1:], strings.Count(d, "\n")+1)
	vf.Reach("end")
}

// VF_C12_Context: item kinds that do not match the type context, and valid tokens in invalid orders.
var c12bad = []string{
	"[1](Catalog)\n", "[1, 2](Map)\n", "[\"a\": 1](List)\n", "[\"a\": 1](Set)\n", "[:](Array)\n", "[ ](Catalog)\n",
	"[(", "[[", "[]", "[1,](List)\n", "[,1](List)\n", "[1 2](List)\n", "](List)\n", "[1](\n", "[1]()\n", "[1](List\n",
	"[1](List)(List)\n", "[1](List) [2](List)\n", "[\n1\n2](List)\n", "[\n\"a\": 1\n2\n](Catalog)\n", "[1:2:3](Map)\n",
	"[[1](List): 2](Map)\n", "", "\n", "[1](Nothing)\n",
}

func VF_C12_Context(i, _ int) {
	totalParse(c12bad[i], strings.Count(c12bad[i], "\n")+1)
	vf.Reach("end")
}

// VF_C12_LongTail: a syntax error followed by m more tokens (more than the scanner queue holds).
func VF_C12_LongTail(m, _ int) {
	src := "[1 1"
	for i := 0; i < m; i++ {
		src += ",1"
	}
	src += "](List)\n"
	vf.Class("error-followed-by-more-than-16-tokens", m > 6)
	totalParse(src, 1)
	vf.Reach("end")
}

// VF_C12_Scanner: tokens of an arbitrary byte string carry the line and column of their first rune,
// the scanner makes progress and always ends with exactly one EOF token.
func VF_C12_Scanner(L, _ int) {
	src := vf.String("s", L)
	vf.Budget(6000000)
	q := col.Queue[cdc.TokenLike](nil).MakeWithCapacity(uint(L + 2))
	cdc.Scanner().Make(src, q)
	vf.Quiesce()
	toks := q.AsArray()
	vf.BudgetReset()
	vf.Assert("ends-with-eof", len(toks) > 0 && toks[len(toks)-1].GetType() == cdc.EOFToken)
	line, col_ := 1, 1
	ok := true
	runes := []rune(src)
	at := 0
	for i, t := range toks {
		if t.GetType() == cdc.EOFToken {
			ok = ok && i == len(toks)-1
			continue
		}
		// spaces are skipped silently: advance to this token's start
		for at < len(runes) && runes[at] == ' ' && !(line == t.GetLine() && col_ == t.GetPosition() && t.GetType() == cdc.ErrorToken) {
			if line == t.GetLine() && col_ == t.GetPosition() {
				break
			}
			at++
			col_++
		}
		ok = ok && t.GetLine() == line && t.GetPosition() == col_
		n := len([]rune(t.GetValue()))
		if strings.HasPrefix(t.GetValue(), "<") && strings.HasSuffix(t.GetValue(), ">") && len(t.GetValue()) == 6 {
			n = 1 // control characters are reported by name
		}
		for k := 0; k < n && at < len(runes); k++ {
			if runes[at] == '\n' {
				line++
				col_ = 1
			} else {
				col_++
			}
			at++
		}
	}
	vf.Assert("tokens-carry-their-own-line-and-column", ok)
	vf.Reach("end")
}

// VF_C12_ScannerQuoted: a quoted rune or string with arbitrary (also multi-byte) content followed
// by arbitrary bytes: columns count runes, not bytes.
func VF_C12_ScannerQuoted(inner, tail int) {
	src := "'" + vf.String("r", inner) + "'" + vf.String("t", tail)
	if inner > 4 {
		src = "\"" + vf.String("r", inner-4) + "\"" + vf.String("t", tail)
	}
	checkScan(src, len(src))
	vf.Reach("end")
}

func checkScan(src string, L int) {
	vf.Budget(6000000)
	q := col.Queue[cdc.TokenLike](nil).MakeWithCapacity(uint(L + 2))
	cdc.Scanner().Make(src, q)
	vf.Quiesce()
	toks := q.AsArray()
	vf.BudgetReset()
	vf.Assert("ends-with-eof", len(toks) > 0 && toks[len(toks)-1].GetType() == cdc.EOFToken)
	line, col_ := 1, 1
	ok := true
	runes := []rune(src)
	at := 0
	for i, t := range toks {
		if t.GetType() == cdc.EOFToken {
			ok = ok && i == len(toks)-1
			continue
		}
		for at < len(runes) && runes[at] == ' ' && !(line == t.GetLine() && col_ == t.GetPosition()) {
			at++
			col_++
		}
		ok = ok && t.GetLine() == line && t.GetPosition() == col_
		n := len([]rune(t.GetValue()))
		if strings.HasPrefix(t.GetValue(), "<") && strings.HasSuffix(t.GetValue(), ">") && len(t.GetValue()) == 6 {
			n = 1
		}
		for k := 0; k < n && at < len(runes); k++ {
			if runes[at] == '\n' {
				line++
				col_ = 1
			} else {
				col_++
			}
			at++
		}
	}
	vf.Assert("tokens-carry-their-own-line-and-column", ok)
}

// VF_C12_LongOffender: the offending token itself is long (a string of n characters where a separator was
// expected): the diagnostic abbreviates it, and stays a diagnostic whatever the length.
func VF_C12_LongOffender(n, kind int) {
	body := make([]byte, n)
	for i := range body {
		body[i] = 'a' + byte(i%26)
	}
	if n > 0 {
		b := vf.Byte("b")
		vf.Assume(vf.And(b >= ' ', b <= '~'))
		vf.Assume(vf.And(b != '"', b != '\\'))
		body[n/2] = b
	}
	tok := "\"" + string(body) + "\""
	if kind == 1 { // escapes make the quoted form much longer than the raw text
		tok = "\""
		for i := 0; i < n; i++ {
			tok += "\\n"
		}
		tok += "\""
	}
	if kind == 2 { // a run of digits: an integer far out of range where a separator was expected
		tok = ""
		for i := 0; i < n+1; i++ {
			tok += string(rune('1' + i%9))
		}
	}
	totalParse("[1 "+tok+"](List)\n", 1)
	vf.Reach("end")
}
