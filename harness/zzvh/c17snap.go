//go:build verif

package zzvh

import (
	age "github.com/craterdog/go-collection-framework/v4/agent"
	col "github.com/craterdog/go-collection-framework/v4/collection"
	vf "github.com/craterdog/go-collection-framework/v4/zzvf"
)

// VF_C17_Snapshot: an iterator obtained before a mutation still enumerates the old contents.
// kind: 0 array, 1 list, 2 set, 3 stack, 4 queue; mut selects the mutation.
func VF_C17_Snapshot(n, kindmut int) {
	kind, mut := kindmut/8, kindmut%8
	xs := vf.Ints("xs", n)
	v := vf.Int("v")
	var it age.IteratorLike[int]
	var expect []int
	var fresh func() (age.IteratorLike[int], []int)
	vf.Budget(8 * listBudget)
	switch kind {
	case 0:
		a := newArr(xs)
		it = a.GetIterator()
		fresh = func() (age.IteratorLike[int], []int) { return a.GetIterator(), a.AsArray() }
		expect = xs
		if n == 0 {
			break
		}
		switch mut {
		case 0:
			a.SetValue(1, v)
		case 1:
			a.SetValue(-1, v)
		case 2:
			a.ReverseValues()
		case 3:
			a.SortValues()
		case 4:
			a.ShuffleValues()
		case 5:
			a.SetValues(1, newArr([]int{v}))
		}
	case 1:
		l := newList(xs)
		it = l.GetIterator()
		fresh = func() (age.IteratorLike[int], []int) { return l.GetIterator(), l.AsArray() }
		expect = xs
		switch mut {
		case 0:
			l.AppendValue(v)
		case 1:
			l.InsertValue(0, v)
		case 2:
			if n > 0 {
				l.SetValue(1, v)
			}
		case 3:
			if n > 0 {
				l.RemoveValue(1)
			}
		case 4:
			l.ReverseValues()
		case 5:
			l.SortValues()
		case 6:
			l.RemoveAll()
		case 7:
			if n > 0 {
				l.SetValues(-1, newArr([]int{v}))
			}
		}
	case 2:
		s := col.Set[int](nil).MakeFromArray(xs)
		expect = s.AsArray()
		it = s.GetIterator()
		fresh = func() (age.IteratorLike[int], []int) { return s.GetIterator(), s.AsArray() }
		switch mut {
		case 0:
			s.AddValue(v)
		case 1:
			s.RemoveValue(v)
		case 2:
			s.RemoveAll()
		}
	case 3:
		s := col.Stack[int](nil).MakeFromArray(xs)
		expect = xs
		it = s.GetIterator()
		fresh = func() (age.IteratorLike[int], []int) { return s.GetIterator(), s.AsArray() }
		switch mut {
		case 0:
			s.AddValue(v)
		case 1:
			if n > 0 {
				s.RemoveTop()
			}
		case 2:
			s.RemoveAll()
		}
	case 4:
		q := col.Queue[int](nil).MakeFromArray(xs)
		expect = xs
		it = q.GetIterator()
		fresh = func() (age.IteratorLike[int], []int) { return q.GetIterator(), q.AsArray() }
		switch mut {
		case 0:
			q.AddValue(v)
		case 1:
			if n > 0 {
				q.RemoveHead()
			}
		case 2:
			q.RemoveAll()
		}
	}
	vf.BudgetReset()
	vf.Assert("iterator-size-frozen", it.GetSize() == len(expect))
	vf.Assert("iterator-yields-snapshot", eqInts(iterInts(it), expect))
	// an iterator obtained after the mutation enumerates the collection as it is now
	it2, cur := fresh()
	vf.Assert("new-iterator-size-is-current", it2.GetSize() == len(cur))
	vf.Assert("new-iterator-yields-current-contents", eqInts(iterInts(it2), cur))
	vf.Reach("end")
}

// Catalog and Map iterators (associations) are snapshots too.
func VF_C17_SnapshotAssoc(n, kindmut int) {
	kind, mut := kindmut/4, kindmut%4
	ks := vf.Ints("k", n)
	vs := vf.Ints("v", n)
	distinct := true
	for i := 0; i < n; i++ {
		for j := i + 1; j < n; j++ {
			distinct = vf.And(distinct, ks[i] != ks[j])
		}
	}
	vf.Assume(distinct)
	nk, nv := vf.Int("nk"), vf.Int("nv")
	var it age.IteratorLike[col.AssociationLike[int, int]]
	vf.Budget(8 * listBudget)
	if kind == 0 {
		c := col.Catalog[int, int](nil).Make()
		for i := range ks {
			c.SetValue(ks[i], vs[i])
		}
		it = c.GetIterator()
		switch mut {
		case 0:
			c.SetValue(nk, nv) // new or existing key
		case 1:
			c.RemoveValue(nk)
		case 2:
			c.ReverseValues()
		case 3:
			c.RemoveAll()
		}
		// the association *objects* are shared with the catalog (a Catalog is a list of
		// associations); what the snapshot guarantees is which associations and in which order
		vf.Assert("iterator-size-frozen", it.GetSize() == n)
		ok := true
		for i := 0; i < n; i++ {
			a := it.GetNext()
			ok = vf.And(ok, a.GetKey() == ks[i])
		}
		vf.Assert("iterator-yields-snapshot-keys", ok)
	} else {
		m := col.Map[int, int](nil).Make()
		for i := range ks {
			m.SetValue(ks[i], vs[i])
		}
		it = m.GetIterator()
		switch mut {
		case 0:
			m.SetValue(nk, nv)
		case 1:
			m.RemoveValue(nk)
		case 2:
			m.RemoveAll()
		}
		vf.Assert("iterator-size-frozen", it.GetSize() == n)
		// every old association is enumerated exactly once with its old value
		seen := make([]int8, n)
		for it.HasNext() {
			a := it.GetNext()
			for i := 0; i < n; i++ {
				seen[i] += int8(vf.IteInt(vf.And(a.GetKey() == ks[i], a.GetValue() == vs[i]), 1, 0))
			}
		}
		ok := true
		for i := 0; i < n; i++ {
			ok = vf.And(ok, seen[i] == 1)
		}
		vf.Assert("iterator-yields-snapshot-associations", ok)
	}
	vf.BudgetReset()
	vf.Reach("end")
}

// Two iterators over one collection do not influence each other.
func VF_C17_TwoIterators(n, _ int) {
	xs := vf.Ints("xs", n)
	l := newList(xs)
	a, b := l.GetIterator(), l.GetIterator()
	s := vf.Int("s")
	vf.Assume(vf.And(s >= 0, s <= n))
	a.ToSlot(s)
	k := vf.Int("k")
	b.ToSlot(k)
	b.GetNext()
	b.GetPrevious()
	b.ToEnd()
	vf.Assert("other-iterator-slot-unchanged", a.GetSlot() == s)
	if s < n {
		vf.Assert("other-iterator-value-unchanged", a.GetNext() == sel(xs, s))
	}
	vf.Reach("end")
}
