//go:build verif

package zzvh

import (
	mod "github.com/craterdog/go-collection-framework/v4"
	col "github.com/craterdog/go-collection-framework/v4/collection"
	vf "github.com/craterdog/go-collection-framework/v4/zzvf"
)

// VF_C05_Constructors: building a queue from n initial values returns for every n (0..4*capacity+).
// form 0 MakeFromArray, 1 MakeFromSequence, 2 module-level Queue(values), 3 module-level Queue(sequence),
// 4 module-level Queue(source) via a stub notation, 5 a parsed Queue literal.
func VF_C05_Constructors(n, form int) {
	xs := make([]int, n)
	for i := range xs {
		xs[i] = i + 1
	}
	if n > 0 {
		xs[0] = vf.Int("x0") // keep one value symbolic: the constructor must not depend on the contents
	}
	vf.Budget(80000000)
	var q interface {
		GetSize() int
		GetCapacity() uint
	}
	switch form {
	case 0:
		q = col.Queue[int](nil).MakeFromArray(xs)
	case 1:
		q = col.Queue[int](nil).MakeFromSequence(newList(xs))
	case 2:
		q = mod.Queue[int](xs)
	case 3:
		q = mod.Queue[int](col.Sequential[int](newArr(xs)))
	case 4:
		q = mod.Queue[int](&stubNotation{col.List[any](nil).MakeFromArray(toAny(xs))}, "source")
	case 5:
		src := "["
		if n == 0 {
			src += " "
		}
		for i := 0; i < n; i++ {
			if i > 0 {
				src += ", "
			}
			src += itoa(i + 1)
		}
		src += "](Queue)\n"
		q = mod.ParseSource(src).(col.QueueLike[any])
	}
	vf.BudgetReset()
	vf.Assert("constructor-returned-with-all-values", q.GetSize() == n)
	vf.Assert("size-within-capacity", q.GetSize() <= int(q.GetCapacity()))
	vf.Reach("end")
}

// VF_C05_RemoveAll: RemoveAll runs while a consumer is (or may be) blocked on the empty queue and a
// producer then adds a value: the consumer must be woken up.
func VF_C05_RemoveAll(which, c int) {
	q := col.Queue[int](nil).MakeWithCapacity(uint(c))
	vf.Share(q)
	switch which {
	case 0:
		vf.Go(consumer(q, 0, 1, false))
		vf.Go(func() { q.RemoveAll() })
		vf.Go(producer(q, 0, 1, nil))
	case 1:
		vf.Go(producer(q, 0, c+1, nil))
		vf.Go(func() { q.RemoveAll() })
		vf.Go(consumer(q, 0, 1, false))
	}
	vf.TraceStart()
	vf.WaitAll()
	vf.Reach("end")
}

// VF_C05_AfterRemoveAll: RemoveAll on a quiescent queue (k values in a queue of capacity c, nobody blocked)
// leaves an empty queue of the same capacity: c further AddValue calls return without a consumer, the
// values come out in order, and the queue can be closed and drained.  kc = k*8 + c.
func VF_C05_AfterRemoveAll(kc, _ int) {
	k, c := kc/8, kc%8
	if c == 0 || k > c {
		vf.Reach("end")
		return
	}
	vf.Budget(20000000)
	q := col.Queue[int](nil).MakeWithCapacity(uint(c))
	for i := 0; i < k; i++ {
		q.AddValue(100 + i)
	}
	q.RemoveAll()
	vf.Assert("empty-after-removeall", vf.And(q.IsEmpty(), q.GetSize() == 0))
	vf.Assert("capacity-unchanged", int(q.GetCapacity()) == c)
	x := vf.Int("x")
	for i := 0; i < c; i++ {
		q.AddValue(x + i) // a send on a full channel with nobody to receive is reported as a deadlock
	}
	vf.Assert("holds-capacity-values-again", q.GetSize() == c)
	q.CloseQueue()
	for i := 0; i < c; i++ {
		v, ok := q.RemoveHead()
		vf.Assert("values-come-out-in-order", vf.And(ok, v == x+i))
	}
	_, ok := q.RemoveHead()
	vf.Assert("closed-and-drained", !ok)
	// a second life: RemoveAll on the closed queue gives a fresh open one; it can be filled, closed and drained again
	q.RemoveAll()
	q.AddValue(x)
	q.CloseQueue()
	v2, ok2 := q.RemoveHead()
	vf.Assert("second-life-value", vf.And(ok2, v2 == x))
	_, ok3 := q.RemoveHead() // blocks for ever if the second CloseQueue did nothing
	vf.Assert("second-life-closed-and-drained", !ok3)
	vf.BudgetReset()
	vf.Reach("end")
}

// VF_C05_Capacities: a queue made with a requested capacity (0 = the default) accepts exactly that many values
// without a consumer, reports them, and can be closed and drained.  sel: 0..4 the capacity, 5 -> 16, 6 -> 17.
func VF_C05_Capacities(sel, _ int) {
	c := sel
	if sel == 5 {
		c = 16
	}
	if sel == 6 {
		c = 17
	}
	cls := col.Queue[int](nil)
	want := c
	if c == 0 {
		want = int(cls.DefaultCapacity())
	}
	vf.Budget(40000000)
	q := cls.MakeWithCapacity(uint(c))
	vf.Assert("capacity-as-requested-or-default", int(q.GetCapacity()) == want)
	x := vf.Int("x")
	for i := 0; i < want; i++ {
		q.AddValue(x + i) // blocks for ever (reported as a deadlock) if the queue holds fewer than its capacity
	}
	vf.Assert("holds-capacity-values", q.GetSize() == want)
	q.CloseQueue()
	for i := 0; i < want; i++ {
		v, ok := q.RemoveHead()
		vf.Assert("values-in-order", vf.And(ok, v == x+i))
	}
	_, ok := q.RemoveHead()
	vf.Assert("closed-and-drained", !ok)
	vf.BudgetReset()
	vf.Reach("end")
}
