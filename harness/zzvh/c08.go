//go:build verif

package zzvh

import (
	age "github.com/craterdog/go-collection-framework/v4/agent"
	col "github.com/craterdog/go-collection-framework/v4/collection"
	vf "github.com/craterdog/go-collection-framework/v4/zzvf"
)

// both: CompareValues must be true (resp. false) and agree with RankValues == Equal.
func mustEqual[V any](tag string, a, b V, want bool) {
	k := age.Collator[V]().Make()
	vf.Assert(tag+"-compare", k.CompareValues(a, b) == want)
	vf.Assert(tag+"-compare-mirrored", k.CompareValues(b, a) == want)
	vf.Assert(tag+"-rank-agrees", (k.RankValues(a, b) == eq) == want)
	vf.Assert(tag+"-depth-restored", k.GetDepth() == 0)
}

// VF_C08_Sequences: rebuilt copies compare equal; every single-point mutation makes them unequal.
// kind 0 []int, 1 List[int], 2 [][]int, 3 []any, 4 Set[int], 5 Stack, 6 Queue, 7 Array.
func VF_C08_Sequences(n, kind int) {
	xs := vf.Ints("xs", n)
	w := vf.Int("w")
	vf.Budget(100 * listBudget)
	// the mutated position and kind of mutation
	build := func(v []int) any {
		switch kind {
		case 0:
			return clone(v)
		case 1:
			return col.List[int](nil).MakeFromArray(v)
		case 2:
			out := make([][]int, len(v))
			for i := range v {
				out[i] = []int{v[i]}
			}
			return out
		case 3:
			out := make([]any, len(v))
			for i := range v {
				out[i] = v[i]
			}
			return out
		case 4:
			return col.Set[int](nil).MakeFromArray(v)
		case 5:
			return col.Stack[int](nil).MakeFromArray(v)
		case 6:
			return col.Queue[int](nil).MakeFromArray(v)
		}
		return col.Array[int](nil).MakeFromArray(v)
	}
	a := build(xs)
	mustEqual("rebuilt-copy", a, build(xs), true)
	if kind != 4 { // (a set would reorder / merge the mutated value)
		for i := 0; i < n; i++ {
			m := clone(xs)
			m[i] = w
			// one leaf changed: equal iff the new leaf equals the old one
			k := age.Collator[any]().Make()
			vf.Assert("one-leaf-changed", k.CompareValues(a, build(m)) == (w == xs[i]))
			vf.Assert("one-leaf-changed-rank", (k.RankValues(a, build(m)) == eq) == (w == xs[i]))
		}
		mustEqual("one-element-added-at-end", a, build(cat(xs, []int{w})), false)
		mustEqual("one-element-added-in-front", a, build(cat([]int{w}, xs)), false)
		if n > 0 {
			mustEqual("one-element-removed", a, build(xs[1:]), false)
		}
		if n > 1 {
			m := clone(xs)
			m[0], m[n-1] = m[n-1], m[0]
			k := age.Collator[any]().Make()
			vf.Assert("two-elements-swapped", k.CompareValues(a, build(m)) == (xs[0] == xs[n-1]))
		}
	} else {
		s := col.Set[int](nil).MakeFromArray(xs)
		t := col.Set[int](nil).MakeFromArray(rev(xs))
		mustEqual("set-insertion-order-irrelevant", s, t, true)
		u := col.Set[int](nil).MakeFromArray(cat(xs, []int{w}))
		mustEqual("set-one-element-added", s, u, member(xs, w))
	}
	vf.BudgetReset()
	vf.Reach("end")
}

// VF_C08_Maps: Go maps, Maps and Catalogs: rebuilt in another insertion order compare equal;
// one value changed / one key renamed / one association added make them unequal.
// kind 0 map[string]int, 1 Map, 2 Catalog (order matters), 3 map[string]any with nil values.
func VF_C08_Maps(n, kind int) {
	ks := make([]string, n)
	vs := vf.Ints("v", n)
	for i := range ks {
		ks[i] = vf.String("k"+string(rune('0'+i)), 1)
		for j := 0; j < i; j++ {
			vf.Assume(!vf.StrEq(ks[i], ks[j]))
		}
	}
	nk := vf.String("nk", 1)
	for i := range ks {
		vf.Assume(!vf.StrEq(nk, ks[i]))
	}
	w := vf.Int("w")
	vf.Budget(100 * listBudget)
	build := func(k []string, v []int, reverse bool) any {
		idx := func(i int) int {
			if reverse {
				return len(k) - 1 - i
			}
			return i
		}
		switch kind {
		case 0:
			m := map[string]int{}
			for i := range k {
				m[k[idx(i)]] = v[idx(i)]
			}
			return m
		case 1:
			m := col.Map[string, int](nil).Make()
			for i := range k {
				m.SetValue(k[idx(i)], v[idx(i)])
			}
			return m
		case 2:
			m := col.Catalog[string, int](nil).Make()
			for i := range k {
				m.SetValue(k[i], v[i]) // a catalog is ordered: same order
			}
			return m
		}
		m := map[string]any{}
		for i := range k {
			if v[idx(i)] == 0 {
				m[k[idx(i)]] = nil
			} else {
				m[k[idx(i)]] = v[idx(i)]
			}
		}
		return m
	}
	a := build(ks, vs, false)
	mustEqual("rebuilt-in-other-insertion-order", a, build(ks, vs, true), true)
	for i := 0; i < n; i++ {
		mv := clone(vs)
		mv[i] = w
		k := age.Collator[any]().Make()
		if kind != 3 {
			vf.Assert("one-value-changed", k.CompareValues(a, build(ks, mv, false)) == (w == vs[i]))
		}
		mk := append([]string{}, ks...)
		mk[i] = nk
		mustEqual("one-key-renamed", a, build(mk, vs, false), false)
	}
	mustEqual("one-association-added", a, build(append(append([]string{}, ks...), nk), cat(vs, []int{w}), false), false)
	if n > 0 {
		mustEqual("one-association-removed", a, build(ks[1:], vs[1:], false), false)
	}
	vf.BudgetReset()
	vf.Reach("end")
}

// VF_C08_Cyclic: a self-containing value ends in the documented depth-limit panic, and the
// same collator (and a fresh one) still compares acyclic values correctly afterwards.
// kind 0 list in itself, 1 list in a list in itself (cycle 2), 2 with siblings, 3 Go slice cycle, 4 catalog value cycle; op 0 compare, 1 rank.
func VF_C08_Cyclic(kind, op int) {
	var cyc any
	switch kind {
	case 0:
		l := col.List[any](nil).Make()
		l.AppendValue(l)
		cyc = l
	case 1:
		l, m := col.List[any](nil).Make(), col.List[any](nil).Make()
		l.AppendValue(m)
		m.AppendValue(l)
		cyc = l
	case 2:
		l := col.List[any](nil).Make()
		l.AppendValue(1)
		l.AppendValue(l)
		l.AppendValue("x")
		cyc = l
	case 3:
		s := make([]any, 1)
		s[0] = s
		cyc = s
	case 4:
		c := col.Catalog[string, any](nil).Make()
		c.SetValue("self", c)
		cyc = c
	case 5:
		l, m, o := col.List[any](nil).Make(), col.List[any](nil).Make(), col.List[any](nil).Make()
		l.AppendValue(m)
		m.AppendValue(o)
		o.AppendValue(l)
		cyc = l
	}
	k := age.Collator[any]().Make()
	vf.Budget(400 * listBudget)
	p, rt, msg := vf.PanicText(func() {
		if op == 0 {
			k.CompareValues(cyc, cyc)
		} else {
			k.RankValues(cyc, cyc)
		}
	})
	vf.Assert("cyclic-panics-with-depth-limit", vf.And(p, !rt))
	vf.Assert("cyclic-panic-text", len(msg) > 30 && msg[:30] == "The maximum traversal depth wa")
	// afterwards the same collator still works on acyclic values
	xs := vf.Ints("xs", 2)
	ys := vf.Ints("ys", 2)
	var a, b any = clone(xs), clone(ys)
	var got bool
	p2, _ := vf.Panics(func() { got = k.CompareValues(a, b) })
	vf.Assert("same-collator-usable-afterwards", !p2)
	if !p2 {
		vf.Assert("same-collator-correct-afterwards", got == eqInts(xs, ys))
	}
	var r age.Rank
	p3, _ := vf.Panics(func() { r = k.RankValues(a, b) })
	vf.Assert("same-collator-ranks-afterwards", !p3)
	if !p3 {
		vf.Assert("same-collator-rank-correct-afterwards", (r == lt) == lexLess(xs, ys))
	}
	vf.Assert("fresh-collator-correct", age.Collator[any]().Make().CompareValues(a, b) == eqInts(xs, ys))
	vf.BudgetReset()
	vf.Reach("end")
}

// VF_C08_Consumers: List.GetIndex (CompareValues) and Set.GetIndex (RankValues) agree on membership.
func VF_C08_Consumers(n, _ int) {
	xs := vf.Ints("xs", n)
	v := vf.Int("v")
	vf.Budget(100 * listBudget)
	l := newList(xs)
	s := col.Set[int](nil).MakeFromArray(xs)
	vf.Assert("list-and-set-agree-on-membership", (l.GetIndex(v) > 0) == (s.GetIndex(v) > 0))
	vf.Assert("contains-agree", l.ContainsValue(v) == s.ContainsValue(v))
	vf.BudgetReset()
	vf.Reach("end")
}

// VF_C08_BigIntegers: neighbouring 64-bit integers near 2^53, 2^63 and 2^64 are different values: never
// Equal in rank, never equal in comparison (whatever conversion the ranking goes through), alone or as a leaf.
func VF_C08_BigIntegers(i, _ int) {
	signed := [][2]int64{{1 << 53, 1<<53 + 1}, {9223372036854775807, 9223372036854775806}, {-9223372036854775808, -9223372036854775807}, {1<<62 + 1, 1 << 62}}
	unsigned := [][2]uint64{{1 << 53, 1<<53 + 1}, {18446744073709551615, 18446744073709551614}, {1 << 63, 1<<63 + 1}}
	k := age.Collator[any]().Make()
	check := func(tag string, a, b any) {
		vf.Assert(tag+"-neighbours-do-not-rank-equal", k.RankValues(a, b) != eq)
		vf.Assert(tag+"-neighbours-do-not-compare-equal", !k.CompareValues(a, b))
		vf.Assert(tag+"-mirror", (k.RankValues(a, b) == lt) == (k.RankValues(b, a) == gt))
	}
	if i < len(signed) {
		p := signed[i]
		check("int64", p[0], p[1])
		check("int64-in-slice", []any{int64(1), p[0]}, []any{int64(1), p[1]})
		check("int64-map-value", map[string]any{"a": p[0]}, map[string]any{"a": p[1]})
		check("int", int(p[0]), int(p[1]))
	} else if i-len(signed) < len(unsigned) {
		p := unsigned[i-len(signed)]
		check("uint64", p[0], p[1])
		check("uint64-in-list", col.List[any](nil).MakeFromArray([]any{p[0]}), col.List[any](nil).MakeFromArray([]any{p[1]}))
	}
	vf.Reach("end")
}
