//go:build verif

package zzvh

import (
	col "github.com/craterdog/go-collection-framework/v4/collection"
	vf "github.com/craterdog/go-collection-framework/v4/zzvf"
)

// ---- shared oracle helpers (abstract sequence) ----

func eqInts(a, b []int) bool {
	if len(a) != len(b) {
		return false
	}
	ok := true
	for i := range a {
		ok = vf.And(ok, a[i] == b[i])
	}
	return ok
}

func eqStrs(a, b []string) bool {
	if len(a) != len(b) {
		return false
	}
	ok := true
	for i := range a {
		ok = vf.And(ok, vf.StrEq(a[i], b[i]))
	}
	return ok
}

// validIdx: index addresses a position of a sequence of size n.
func validIdx(i, n int) bool {
	return vf.Or(vf.And(i >= 1, i <= n), vf.And(i >= -n, i <= -1))
}

// norm: zero-based position of a valid ordinal index.
func norm(i, n int) int { return vf.IteInt(i > 0, i-1, i+n) }

// sel reads xs[k] for symbolic k without forking (k assumed in range).
func sel(xs []int, k int) int {
	r := 0
	for i := len(xs) - 1; i >= 0; i-- {
		r = vf.IteInt(k == i, xs[i], r)
	}
	return r
}

func iterInts(it interface {
	HasNext() bool
	GetNext() int
}) []int {
	var out []int
	for it.HasNext() {
		out = append(out, it.GetNext())
	}
	return out
}

func cat(parts ...[]int) []int {
	var out []int
	for _, p := range parts {
		out = append(out, p...)
	}
	return out
}

func newList(xs []int) col.ListLike[int] { return col.List[int](nil).MakeFromArray(xs) }
func newArr(xs []int) col.ArrayLike[int] { return col.Array[int](nil).MakeFromArray(xs) }

const listBudget = 60000

// ---- List[int]: one operation from an arbitrary state of size n ----

func VF_C01_ListGetValue(n, _ int) {
	xs := vf.Ints("xs", n)
	l := newList(xs)
	idx := vf.Int("index")
	var got int
	vf.Budget(listBudget)
	p, _ := vf.Panics(func() { got = l.GetValue(idx) })
	vf.BudgetReset()
	valid := validIdx(idx, n)
	vf.Assert("panic-iff-outside", p == !valid)
	if !p {
		vf.Assert("value", got == sel(xs, norm(idx, n)))
	}
	vf.Assert("unchanged", eqInts(l.AsArray(), xs))
	vf.Assert("size", l.GetSize() == n)
	vf.Reach("end")
}

func VF_C01_ListGetValues(n, _ int) {
	xs := vf.Ints("xs", n)
	l := newList(xs)
	first, last := vf.Int("first"), vf.Int("last")
	var got col.Sequential[int]
	vf.Budget(listBudget)
	p, _ := vf.Panics(func() { got = l.GetValues(first, last) })
	vf.BudgetReset()
	valid := vf.And(validIdx(first, n), validIdx(last, n))
	f, t := norm(first, n), norm(last, n)
	inverted := vf.And(valid, f > t)
	vf.Class("inverted-range", inverted)
	// outside => must panic; valid and ordered => must return; inverted: either (property is silent)
	vf.Assert("panic-if-outside", vf.Implies(!valid, p))
	vf.Assert("returns-if-valid", vf.Implies(vf.And(valid, !inverted), !p))
	if !p {
		if vf.And(valid, !inverted) {
			fc := vf.Concrete(f, 0, n-1)
			tc := vf.Concrete(t, 0, n-1)
			vf.Assert("values", eqInts(got.AsArray(), xs[fc:tc+1]))
		} else {
			vf.Assert("inverted-empty", got.GetSize() == 0)
		}
	}
	vf.Assert("unchanged", eqInts(l.AsArray(), xs))
	vf.Reach("end")
}

func VF_C01_ListSetValue(n, _ int) {
	xs := vf.Ints("xs", n)
	l := newList(xs)
	idx, v := vf.Int("index"), vf.Int("v")
	vf.Budget(listBudget)
	p, _ := vf.Panics(func() { l.SetValue(idx, v) })
	vf.BudgetReset()
	valid := validIdx(idx, n)
	vf.Assert("panic-iff-outside", p == !valid)
	after := l.AsArray()
	if p {
		vf.Assert("unchanged-on-panic", eqInts(after, xs))
	} else {
		k := norm(idx, n)
		ok := len(after) == n
		if ok {
			for i := range after {
				ok = vf.And(ok, after[i] == vf.IteInt(k == i, v, xs[i]))
			}
		}
		vf.Assert("only-addressed-slot-changes", ok)
	}
	vf.Reach("end")
}

func VF_C01_ListSetValues(n, m int) {
	xs := vf.Ints("xs", n)
	ys := vf.Ints("ys", m)
	l := newList(xs)
	idx := vf.Int("index")
	vf.Budget(listBudget)
	p, _ := vf.Panics(func() { l.SetValues(idx, newArr(ys)) })
	vf.BudgetReset()
	k := norm(idx, n)
	fits := vf.And(validIdx(idx, n), k+m <= n)
	after := l.AsArray()
	if m == 0 {
		// empty operand: panic or no-op, state unchanged either way
		vf.Assert("empty-operand-unchanged", eqInts(after, xs))
	} else {
		vf.Assert("panic-iff-does-not-fit", p == !fits)
		if p {
			vf.Assert("unchanged-on-panic", eqInts(after, xs))
		} else {
			kc := vf.Concrete(k, 0, n-1)
			vf.Assert("overwrites-range", eqInts(after, cat(xs[:kc], ys, xs[kc+m:])))
		}
	}
	vf.Reach("end")
}

func VF_C01_ListInsertValue(n, _ int) {
	xs := vf.Ints("xs", n)
	l := newList(xs)
	slot := vf.Uint("slot")
	v := vf.Int("v")
	vf.Budget(listBudget)
	p, _ := vf.Panics(func() { l.InsertValue(slot, v) })
	vf.BudgetReset()
	valid := slot <= uint(n)
	vf.Class("slot>size", !valid)
	vf.Assert("panic-iff-outside", p == !valid)
	after := l.AsArray()
	if p {
		vf.Assert("unchanged-on-panic", eqInts(after, xs))
	} else if valid {
		sc := vf.Concrete(int(slot), 0, n)
		vf.Assert("inserted-at-slot", eqInts(after, cat(xs[:sc], []int{v}, xs[sc:])))
	}
	vf.Reach("end")
}

func VF_C01_ListInsertValues(n, m int) {
	xs := vf.Ints("xs", n)
	ys := vf.Ints("ys", m)
	l := newList(xs)
	slot := vf.Uint("slot")
	vf.Budget(listBudget)
	p, _ := vf.Panics(func() { l.InsertValues(slot, newArr(ys)) })
	vf.BudgetReset()
	valid := slot <= uint(n)
	vf.Class("slot>size", !valid)
	vf.Assert("panic-iff-outside", p == !valid)
	after := l.AsArray()
	if p {
		vf.Assert("unchanged-on-panic", eqInts(after, xs))
	} else if valid {
		sc := vf.Concrete(int(slot), 0, n)
		vf.Assert("inserted-at-slot", eqInts(after, cat(xs[:sc], ys, xs[sc:])))
	}
	vf.Reach("end")
}

func VF_C01_ListAppend(n, m int) {
	xs := vf.Ints("xs", n)
	ys := vf.Ints("ys", m)
	l := newList(xs)
	v := vf.Int("v")
	vf.Budget(listBudget)
	l.AppendValue(v)
	vf.Assert("append-value", eqInts(l.AsArray(), cat(xs, []int{v})))
	l.AppendValues(newArr(ys))
	vf.BudgetReset()
	vf.Assert("append-values", eqInts(l.AsArray(), cat(xs, []int{v}, ys)))
	vf.Assert("size", l.GetSize() == n+1+m)
	vf.Assert("nonempty", !l.IsEmpty())
	vf.Reach("end")
}

func VF_C01_ListRemoveValue(n, _ int) {
	xs := vf.Ints("xs", n)
	l := newList(xs)
	idx := vf.Int("index")
	var got int
	vf.Budget(listBudget)
	p, _ := vf.Panics(func() { got = l.RemoveValue(idx) })
	vf.BudgetReset()
	valid := validIdx(idx, n)
	vf.Assert("panic-iff-outside", p == !valid)
	after := l.AsArray()
	if p {
		vf.Assert("unchanged-on-panic", eqInts(after, xs))
	} else {
		kc := vf.Concrete(norm(idx, n), 0, n-1)
		vf.Assert("returns-removed", got == xs[kc])
		vf.Assert("removes-exactly-that-slot", eqInts(after, cat(xs[:kc], xs[kc+1:])))
	}
	vf.Reach("end")
}

func VF_C01_ListRemoveValues(n, _ int) {
	xs := vf.Ints("xs", n)
	l := newList(xs)
	first, last := vf.Int("first"), vf.Int("last")
	var got col.Sequential[int]
	vf.Budget(listBudget)
	p, _ := vf.Panics(func() { got = l.RemoveValues(first, last) })
	vf.BudgetReset()
	valid := vf.And(validIdx(first, n), validIdx(last, n))
	f, t := norm(first, n), norm(last, n)
	inverted := vf.And(valid, f > t)
	vf.Assert("panic-if-outside", vf.Implies(!valid, p))
	vf.Assert("returns-if-valid", vf.Implies(vf.And(valid, !inverted), !p))
	after := l.AsArray()
	if p {
		vf.Assert("unchanged-on-panic", eqInts(after, xs))
	} else if vf.And(valid, !inverted) {
		fc := vf.Concrete(f, 0, n-1)
		tc := vf.Concrete(t, 0, n-1)
		vf.Assert("removed-values", eqInts(got.AsArray(), xs[fc:tc+1]))
		vf.Assert("remaining-values", eqInts(after, cat(xs[:fc], xs[tc+1:])))
	} else {
		vf.Assert("inverted-removes-nothing", vf.And(got.GetSize() == 0, eqInts(after, xs)))
	}
	vf.Reach("end")
}

func VF_C01_ListViews(n, _ int) {
	xs := vf.Ints("xs", n)
	l := newList(xs)
	vf.Assert("size", l.GetSize() == n)
	vf.Assert("empty", l.IsEmpty() == (n == 0))
	vf.Assert("array", eqInts(l.AsArray(), xs))
	vf.Assert("iteration", eqInts(iterInts(l.GetIterator()), xs))
	l.RemoveAll()
	vf.Assert("removeall-size", l.GetSize() == 0)
	vf.Assert("removeall-empty", l.IsEmpty())
	vf.Assert("removeall-array", len(l.AsArray()) == 0)
	vf.Reach("end")
}

// Bulk operations with the receiver itself as the operand.
func VF_C01_ListSelfOperand(n, op int) {
	xs := vf.Ints("xs", n)
	l := newList(xs)
	vf.Budget(listBudget)
	switch op {
	case 0:
		l.AppendValues(l)
		vf.Assert("append-self", eqInts(l.AsArray(), cat(xs, xs)))
	case 1:
		slot := vf.Uint("slot")
		vf.Assume(slot <= uint(n))
		l.InsertValues(slot, l)
		sc := vf.Concrete(int(slot), 0, n)
		vf.Assert("insert-self", eqInts(l.AsArray(), cat(xs[:sc], xs, xs[sc:])))
	case 2:
		if n > 0 {
			l.SetValues(1, l)
			vf.Assert("set-self", eqInts(l.AsArray(), xs))
		}
	}
	vf.BudgetReset()
	vf.Reach("end")
}

func VF_C01_ListConstructors(n, m int) {
	xs := vf.Ints("xs", n)
	ys := vf.Ints("ys", m)
	cls := col.List[int](nil)
	e := cls.Make()
	vf.Assert("make-empty", vf.And(e.GetSize() == 0, e.IsEmpty()))
	a := cls.MakeFromArray(xs)
	vf.Assert("from-array", eqInts(a.AsArray(), xs))
	s := cls.MakeFromSequence(newArr(xs))
	vf.Assert("from-sequence", eqInts(s.AsArray(), xs))
	b := cls.MakeFromArray(ys)
	c := cls.Concatenate(a, b)
	vf.Assert("concatenate", eqInts(c.AsArray(), cat(xs, ys)))
	vf.Assert("concatenate-left-unchanged", eqInts(a.AsArray(), xs))
	vf.Assert("concatenate-right-unchanged", eqInts(b.AsArray(), ys))
	d := cls.Concatenate(a, a)
	vf.Assert("concatenate-self", eqInts(d.AsArray(), cat(xs, xs)))
	vf.Reach("end")
}

// ---- Array[int] ----

func VF_C01_ArrayAccess(n, op int) {
	xs := vf.Ints("xs", n)
	a := newArr(xs)
	idx := vf.Int("index")
	valid := validIdx(idx, n)
	switch op {
	case 0:
		var got int
		p, _ := vf.Panics(func() { got = a.GetValue(idx) })
		vf.Assert("get-panic-iff-outside", p == !valid)
		if !p {
			vf.Assert("get-value", got == sel(xs, norm(idx, n)))
		}
		vf.Assert("get-unchanged", eqInts(a.AsArray(), xs))
	case 1:
		v := vf.Int("v")
		p, _ := vf.Panics(func() { a.SetValue(idx, v) })
		vf.Assert("set-panic-iff-outside", p == !valid)
		after := a.AsArray()
		if p {
			vf.Assert("set-unchanged-on-panic", eqInts(after, xs))
		} else {
			k := norm(idx, n)
			ok := len(after) == n
			if ok {
				for i := range after {
					ok = vf.And(ok, after[i] == vf.IteInt(k == i, v, xs[i]))
				}
			}
			vf.Assert("set-only-addressed-slot", ok)
		}
	case 2:
		last := vf.Int("last")
		var got col.Sequential[int]
		p, _ := vf.Panics(func() { got = a.GetValues(idx, last) })
		valid2 := vf.And(valid, validIdx(last, n))
		f, t := norm(idx, n), norm(last, n)
		inverted := vf.And(valid2, f > t)
		vf.Assert("getvalues-panic-if-outside", vf.Implies(!valid2, p))
		vf.Assert("getvalues-returns-if-valid", vf.Implies(vf.And(valid2, !inverted), !p))
		if !p {
			if vf.And(valid2, !inverted) {
				fc := vf.Concrete(f, 0, n-1)
				tc := vf.Concrete(t, 0, n-1)
				vf.Assert("getvalues-values", eqInts(got.AsArray(), xs[fc:tc+1]))
			} else {
				vf.Assert("getvalues-inverted-empty", got.GetSize() == 0)
			}
		}
		vf.Assert("getvalues-unchanged", eqInts(a.AsArray(), xs))
	case 3:
		vf.Assert("size", a.GetSize() == n)
		vf.Assert("empty", a.IsEmpty() == (n == 0))
		vf.Assert("iteration", eqInts(iterInts(a.GetIterator()), xs))
		z := col.Array[int](nil).Make(uint(n))
		ok := z.GetSize() == n
		for _, v := range z.AsArray() {
			ok = vf.And(ok, v == 0)
		}
		vf.Assert("make-zeroed", ok)
		s := col.Array[int](nil).MakeFromSequence(newList(xs))
		vf.Assert("from-sequence", eqInts(s.AsArray(), xs))
	}
	vf.Reach("end")
}

func VF_C01_ArraySetValues(n, m int) {
	xs := vf.Ints("xs", n)
	ys := vf.Ints("ys", m)
	a := newArr(xs)
	idx := vf.Int("index")
	p, _ := vf.Panics(func() { a.SetValues(idx, newArr(ys)) })
	k := norm(idx, n)
	fits := vf.And(validIdx(idx, n), k+m <= n)
	after := a.AsArray()
	if m == 0 {
		vf.Assert("empty-operand-unchanged", eqInts(after, xs))
	} else {
		vf.Assert("panic-iff-does-not-fit", p == !fits)
		if p {
			vf.Assert("unchanged-on-panic", eqInts(after, xs))
		} else {
			kc := vf.Concrete(k, 0, n-1)
			vf.Assert("overwrites-range", eqInts(after, cat(xs[:kc], ys, xs[kc+m:])))
		}
	}
	vf.Reach("end")
}

// VF_C01_LaterHistory: a result handed out earlier is a value of the abstract sequence at that time;
// later operations on the receiver (or on the result) do not change what the other one shows.
// kind 0: List.GetValues, 1: Array.GetValues, 2: List.AsArray, 3: Array.AsArray, 4: List.Concatenate,
// 5: List.MakeFromSequence.
func VF_C01_LaterHistory(n, kind int) {
	xs := vf.Ints("xs", n)
	w := vf.Int("w")
	vf.Budget(listBudget)
	switch kind {
	case 0, 1:
		if n == 0 {
			break
		}
		first, last := vf.Int("first"), vf.Int("last")
		vf.Assume(vf.And(validIdx(first, n), validIdx(last, n)))
		vf.Assume(norm(first, n) <= norm(last, n))
		k := vf.Int("k")
		vf.Assume(validIdx(k, n))
		var got col.Sequential[int]
		var now func() []int
		if kind == 0 {
			l := newList(xs)
			got = l.GetValues(first, last)
			snap := clone(got.AsArray())
			l.SetValue(k, w)
			vf.Assert("range-result-unaffected-by-later-update", eqInts(got.AsArray(), snap))
			l.ReverseValues()
			vf.Assert("range-result-unaffected-by-later-reversal", eqInts(got.AsArray(), snap))
			l.RemoveAll()
			vf.Assert("range-result-unaffected-by-later-removal", eqInts(got.AsArray(), snap))
			now = l.AsArray
		} else {
			a := newArr(xs)
			got = a.GetValues(first, last)
			snap := clone(got.AsArray())
			a.SetValue(k, w)
			vf.Assert("range-result-unaffected-by-later-update", eqInts(got.AsArray(), snap))
			a.ReverseValues()
			vf.Assert("range-result-unaffected-by-later-reversal", eqInts(got.AsArray(), snap))
			now = a.AsArray
		}
		// and the other way round: updating the result (when it is updatable) leaves the receiver alone
		if u, ok := got.(col.Updatable[int]); ok {
			before := clone(now())
			u.SetValue(1, w)
			vf.Assert("receiver-unaffected-by-update-of-range-result", eqInts(now(), before))
		}
	case 2:
		l := newList(xs)
		view := l.AsArray()
		snap := clone(view)
		l.AppendValue(w)
		if n > 0 {
			l.SetValue(1, w)
			l.SetValue(-1, w)
		}
		vf.Assert("array-view-unaffected-by-later-update", eqInts(view, snap))
		l2 := newList(xs)
		v2 := l2.AsArray()
		for i := range v2 {
			v2[i] = w
		}
		vf.Assert("list-unaffected-by-writes-to-array-view", eqInts(l2.AsArray(), xs))
	case 3:
		a := newArr(xs)
		view := a.AsArray()
		snap := clone(view)
		if n > 0 {
			a.SetValue(1, w)
			a.SetValue(-1, w)
		}
		vf.Assert("array-view-unaffected-by-later-update", eqInts(view, snap))
		v2 := a.AsArray()
		before := clone(v2)
		for i := range v2 {
			v2[i] = w
		}
		vf.Assert("array-unaffected-by-writes-to-array-view", eqInts(a.AsArray(), before))
	case 4:
		cls := col.List[int](nil)
		ys := vf.Ints("ys", n/2)
		a, b := cls.MakeFromArray(xs), cls.MakeFromArray(ys)
		c := cls.Concatenate(a, b)
		want := cat(xs, ys)
		a.AppendValue(w)
		b.AppendValue(w)
		if n > 0 {
			a.SetValue(1, w)
		}
		if n/2 > 0 {
			b.SetValue(1, w)
		}
		vf.Assert("concatenation-unaffected-by-later-operand-updates", eqInts(c.AsArray(), want))
		a2, b2 := cls.MakeFromArray(xs), cls.MakeFromArray(ys)
		c2 := cls.Concatenate(a2, b2)
		c2.AppendValue(w)
		if n+n/2 > 0 {
			c2.SetValue(1, w)
			c2.SetValue(-2, w)
		}
		vf.Assert("left-operand-unaffected-by-updates-of-concatenation", eqInts(a2.AsArray(), xs))
		vf.Assert("right-operand-unaffected-by-updates-of-concatenation", eqInts(b2.AsArray(), ys))
	case 5:
		cls := col.List[int](nil)
		src := newArr(xs)
		l := cls.MakeFromSequence(src)
		if n > 0 {
			src.SetValue(1, w)
		}
		vf.Assert("list-unaffected-by-later-update-of-source", eqInts(l.AsArray(), xs))
		src2 := clone(xs)
		l2 := cls.MakeFromArray(src2)
		for i := range src2 {
			src2[i] = w
		}
		vf.Assert("list-unaffected-by-later-writes-to-source-array", eqInts(l2.AsArray(), xs))
	case 6:
		// bulk insertion into an empty and a non-empty list takes copies of the operand's values
		for _, pre := range [][]int{{}, {w}} {
			src := newArr(xs)
			l := newList(pre)
			l.AppendValues(src)
			want := cat(pre, xs)
			vf.Assert("appendvalues-appends", eqInts(l.AsArray(), want))
			if n > 0 {
				src.SetValue(1, w+1)
				src.ReverseValues()
			}
			vf.Assert("list-unaffected-by-later-update-of-appended-array", eqInts(l.AsArray(), want))
			src2 := newArr(xs)
			l2 := newList(pre)
			l2.InsertValues(0, src2)
			if len(pre)+n > 0 {
				l2.SetValue(1, w+1)
				l2.ReverseValues()
			}
			vf.Assert("inserted-array-unaffected-by-later-update-of-list", eqInts(src2.AsArray(), xs))
			src3 := newArr(xs)
			l3 := newList(pre)
			l3.AppendValues(src3)
			if len(pre)+n > 0 {
				l3.SetValue(-1, w+1)
				l3.ReverseValues()
			}
			vf.Assert("appended-array-unaffected-by-later-update-of-list", eqInts(src3.AsArray(), xs))
		}
	}
	vf.BudgetReset()
	vf.Reach("end")
}

// VF_C01_LongSort: SortValues / ReverseValues on lists and arrays longer than the one-operation harnesses reach
// (7..26 values: a concrete descending or saw-tooth pattern with one arbitrary value); kind 0 List, 1 Array.
func VF_C01_LongSort(n, sel int) {
	kind, pattern := sel%2, sel/2
	xs := make([]int, n)
	for i := range xs {
		if pattern == 0 {
			xs[i] = 2 * (n - i)
		} else {
			xs[i] = 2 * ((n - i) % 4)
		}
	}
	b := vf.Int("b")
	vf.Assume(vf.And(b >= -1, b <= 2*n+1))
	if n > 0 {
		xs[n-1] = b
	}
	vf.Budget(600 * listBudget)
	var c sortableInts
	if kind == 0 {
		c = newList(xs)
	} else {
		c = newArr(xs)
	}
	c.SortValues()
	got := c.AsArray()
	ok := len(got) == n
	for i := 0; i+1 < len(got); i++ {
		ok = vf.And(ok, got[i] <= got[i+1])
	}
	vf.Assert("long-sort-ascending", ok)
	vf.Assert("long-sort-permutation", isPerm(got, xs))
	c.ReverseValues()
	vf.Assert("long-reverse-exact", eqInts(c.AsArray(), rev(got)))
	vf.BudgetReset()
	vf.Reach("end")
}
