//go:build verif

package zzvh

import (
	col "github.com/craterdog/go-collection-framework/v4/collection"
	vf "github.com/craterdog/go-collection-framework/v4/zzvf"
)

// ---- shared oracle helpers (abstract sequence) ----

func eqInts(a, b []int) bool {
	if len(a) != len(b) {
		return false
	}
	ok := true
	for i := range a {
		ok = vf.And(ok, a[i] == b[i])
	}
	return ok
}

func eqStrs(a, b []string) bool {
	if len(a) != len(b) {
		return false
	}
	ok := true
	for i := range a {
		ok = vf.And(ok, vf.StrEq(a[i], b[i]))
	}
	return ok
}

// validIdx: index addresses a position of a sequence of size n.
func validIdx(i, n int) bool {
	return vf.Or(vf.And(i >= 1, i <= n), vf.And(i >= -n, i <= -1))
}

// norm: zero-based position of a valid ordinal index.
func norm(i, n int) int { return vf.IteInt(i > 0, i-1, i+n) }

// sel reads xs[k] for symbolic k without forking (k assumed in range).
func sel(xs []int, k int) int {
	r := 0
	for i := len(xs) - 1; i >= 0; i-- {
		r = vf.IteInt(k == i, xs[i], r)
	}
	return r
}

func iterInts(it interface {
	HasNext() bool
	GetNext() int
}) []int {
	var out []int
	for it.HasNext() {
		out = append(out, it.GetNext())
	}
	return out
}

func cat(parts ...[]int) []int {
	var out []int
	for _, p := range parts {
		out = append(out, p...)
	}
	return out
}

func newList(xs []int) col.ListLike[int] { return col.List[int](nil).MakeFromArray(xs) }
func newArr(xs []int) col.ArrayLike[int] { return col.Array[int](nil).MakeFromArray(xs) }

const listBudget = 60000

// ---- List[int]: one operation from an arbitrary state of size n ----

func VF_C01_ListGetValue(n, _ int) {
	xs := vf.Ints("xs", n)
	l := newList(xs)
	idx := vf.Int("index")
	var got int
	vf.Budget(listBudget)
	p, _ := vf.Panics(func() { got = l.GetValue(idx) })
	vf.BudgetReset()
	valid := validIdx(idx, n)
	vf.Assert("panic-iff-outside", p == !valid)
	if !p {
		vf.Assert("value", got == sel(xs, norm(idx, n)))
	}
	vf.Assert("unchanged", eqInts(l.AsArray(), xs))
	vf.Assert("size", l.GetSize() == n)
	vf.Reach("end")
}

func VF_C01_ListGetValues(n, _ int) {
	xs := vf.Ints("xs", n)
	l := newList(xs)
	first, last := vf.Int("first"), vf.Int("last")
	var got col.Sequential[int]
	vf.Budget(listBudget)
	p, _ := vf.Panics(func() { got = l.GetValues(first, last) })
	vf.BudgetReset()
	valid := vf.And(validIdx(first, n), validIdx(last, n))
	f, t := norm(first, n), norm(last, n)
	inverted := vf.And(valid, f > t)
	vf.Class("inverted-range", inverted)
	// outside => must panic; valid and ordered => must return; inverted: either (property is silent)
	vf.Assert("panic-if-outside", vf.Implies(!valid, p))
	vf.Assert("returns-if-valid", vf.Implies(vf.And(valid, !inverted), !p))
	if !p {
		if vf.And(valid, !inverted) {
			fc := vf.Concrete(f, 0, n-1)
			tc := vf.Concrete(t, 0, n-1)
			vf.Assert("values", eqInts(got.AsArray(), xs[fc:tc+1]))
		} else {
			vf.Assert("inverted-empty", got.GetSize() == 0)
		}
	}
	vf.Assert("unchanged", eqInts(l.AsArray(), xs))
	vf.Reach("end")
}

func VF_C01_ListSetValue(n, _ int) {
	xs := vf.Ints("xs", n)
	l := newList(xs)
	idx, v := vf.Int("index"), vf.Int("v")
	vf.Budget(listBudget)
	p, _ := vf.Panics(func() { l.SetValue(idx, v) })
	vf.BudgetReset()
	valid := validIdx(idx, n)
	vf.Assert("panic-iff-outside", p == !valid)
	after := l.AsArray()
	if p {
		vf.Assert("unchanged-on-panic", eqInts(after, xs))
	} else {
		k := norm(idx, n)
		ok := len(after) == n
		if ok {
			for i := range after {
				ok = vf.And(ok, after[i] == vf.IteInt(k == i, v, xs[i]))
			}
		}
		vf.Assert("only-addressed-slot-changes", ok)
	}
	vf.Reach("end")
}

func VF_C01_ListSetValues(n, m int) {
	xs := vf.Ints("xs", n)
	ys := vf.Ints("ys", m)
	l := newList(xs)
	idx := vf.Int("index")
	vf.Budget(listBudget)
	p, _ := vf.Panics(func() { l.SetValues(idx, newArr(ys)) })
	vf.BudgetReset()
	k := norm(idx, n)
	fits := vf.And(validIdx(idx, n), k+m <= n)
	after := l.AsArray()
	if m == 0 {
		// empty operand: panic or no-op, state unchanged either way
		vf.Assert("empty-operand-unchanged", eqInts(after, xs))
	} else {
		vf.Assert("panic-iff-does-not-fit", p == !fits)
		if p {
			vf.Assert("unchanged-on-panic", eqInts(after, xs))
		} else {
			kc := vf.Concrete(k, 0, n-1)
			vf.Assert("overwrites-range", eqInts(after, cat(xs[:kc], ys, xs[kc+m:])))
		}
	}
	vf.Reach("end")
}

func VF_C01_ListInsertValue(n, _ int) {
	xs := vf.Ints("xs", n)
	l := newList(xs)
	slot := vf.Uint("slot")
	v := vf.Int("v")
	vf.Budget(listBudget)
	p, _ := vf.Panics(func() { l.InsertValue(slot, v) })
	vf.BudgetReset()
	valid := slot <= uint(n)
	vf.Class("slot>size", !valid)
	vf.Assert("panic-iff-outside", p == !valid)
	after := l.AsArray()
	if p {
		vf.Assert("unchanged-on-panic", eqInts(after, xs))
	} else if valid {
		sc := vf.Concrete(int(slot), 0, n)
		vf.Assert("inserted-at-slot", eqInts(after, cat(xs[:sc], []int{v}, xs[sc:])))
	}
	vf.Reach("end")
}

func VF_C01_ListInsertValues(n, m int) {
	xs := vf.Ints("xs", n)
	ys := vf.Ints("ys", m)
	l := newList(xs)
	slot := vf.Uint("slot")
	vf.Budget(listBudget)
	p, _ := vf.Panics(func() { l.InsertValues(slot, newArr(ys)) })
	vf.BudgetReset()
	valid := slot <= uint(n)
	vf.Class("slot>size", !valid)
	vf.Assert("panic-iff-outside", p == !valid)
	after := l.AsArray()
	if p {
		vf.Assert("unchanged-on-panic", eqInts(after, xs))
	} else if valid {
		sc := vf.Concrete(int(slot), 0, n)
		vf.Assert("inserted-at-slot", eqInts(after, cat(xs[:sc], ys, xs[sc:])))
	}
	vf.Reach("end")
}

func VF_C01_ListAppend(n, m int) {
	xs := vf.Ints("xs", n)
	ys := vf.Ints("ys", m)
	l := newList(xs)
	v := vf.Int("v")
	vf.Budget(listBudget)
	l.AppendValue(v)
	vf.Assert("append-value", eqInts(l.AsArray(), cat(xs, []int{v})))
	l.AppendValues(newArr(ys))
	vf.BudgetReset()
	vf.Assert("append-values", eqInts(l.AsArray(), cat(xs, []int{v}, ys)))
	vf.Assert("size", l.GetSize() == n+1+m)
	vf.Assert("nonempty", !l.IsEmpty())
	vf.Reach("end")
}

func VF_C01_ListRemoveValue(n, _ int) {
	xs := vf.Ints("xs", n)
	l := newList(xs)
	idx := vf.Int("index")
	var got int
	vf.Budget(listBudget)
	p, _ := vf.Panics(func() { got = l.RemoveValue(idx) })
	vf.BudgetReset()
	valid := validIdx(idx, n)
	vf.Assert("panic-iff-outside", p == !valid)
	after := l.AsArray()
	if p {
		vf.Assert("unchanged-on-panic", eqInts(after, xs))
	} else {
		kc := vf.Concrete(norm(idx, n), 0, n-1)
		vf.Assert("returns-removed", got == xs[kc])
		vf.Assert("removes-exactly-that-slot", eqInts(after, cat(xs[:kc], xs[kc+1:])))
	}
	vf.Reach("end")
}

func VF_C01_ListRemoveValues(n, _ int) {
	xs := vf.Ints("xs", n)
	l := newList(xs)
	first, last := vf.Int("first"), vf.Int("last")
	var got col.Sequential[int]
	vf.Budget(listBudget)
	p, _ := vf.Panics(func() { got = l.RemoveValues(first, last) })
	vf.BudgetReset()
	valid := vf.And(validIdx(first, n), validIdx(last, n))
	f, t := norm(first, n), norm(last, n)
	inverted := vf.And(valid, f > t)
	vf.Assert("panic-if-outside", vf.Implies(!valid, p))
	vf.Assert("returns-if-valid", vf.Implies(vf.And(valid, !inverted), !p))
	after := l.AsArray()
	if p {
		vf.Assert("unchanged-on-panic", eqInts(after, xs))
	} else if vf.And(valid, !inverted) {
		fc := vf.Concrete(f, 0, n-1)
		tc := vf.Concrete(t, 0, n-1)
		vf.Assert("removed-values", eqInts(got.AsArray(), xs[fc:tc+1]))
		vf.Assert("remaining-values", eqInts(after, cat(xs[:fc], xs[tc+1:])))
	} else {
		vf.Assert("inverted-removes-nothing", vf.And(got.GetSize() == 0, eqInts(after, xs)))
	}
	vf.Reach("end")
}

func VF_C01_ListViews(n, _ int) {
	xs := vf.Ints("xs", n)
	l := newList(xs)
	vf.Assert("size", l.GetSize() == n)
	vf.Assert("empty", l.IsEmpty() == (n == 0))
	vf.Assert("array", eqInts(l.AsArray(), xs))
	vf.Assert("iteration", eqInts(iterInts(l.GetIterator()), xs))
	l.RemoveAll()
	vf.Assert("removeall-size", l.GetSize() == 0)
	vf.Assert("removeall-empty", l.IsEmpty())
	vf.Assert("removeall-array", len(l.AsArray()) == 0)
	vf.Reach("end")
}

// Bulk operations with the receiver itself as the operand.
func VF_C01_ListSelfOperand(n, op int) {
	xs := vf.Ints("xs", n)
	l := newList(xs)
	vf.Budget(listBudget)
	switch op {
	case 0:
		l.AppendValues(l)
		vf.Assert("append-self", eqInts(l.AsArray(), cat(xs, xs)))
	case 1:
		slot := vf.Uint("slot")
		vf.Assume(slot <= uint(n))
		l.InsertValues(slot, l)
		sc := vf.Concrete(int(slot), 0, n)
		vf.Assert("insert-self", eqInts(l.AsArray(), cat(xs[:sc], xs, xs[sc:])))
	case 2:
		if n > 0 {
			l.SetValues(1, l)
			vf.Assert("set-self", eqInts(l.AsArray(), xs))
		}
	}
	vf.BudgetReset()
	vf.Reach("end")
}

func VF_C01_ListConstructors(n, m int) {
	xs := vf.Ints("xs", n)
	ys := vf.Ints("ys", m)
	cls := col.List[int](nil)
	e := cls.Make()
	vf.Assert("make-empty", vf.And(e.GetSize() == 0, e.IsEmpty()))
	a := cls.MakeFromArray(xs)
	vf.Assert("from-array", eqInts(a.AsArray(), xs))
	s := cls.MakeFromSequence(newArr(xs))
	vf.Assert("from-sequence", eqInts(s.AsArray(), xs))
	b := cls.MakeFromArray(ys)
	c := cls.Concatenate(a, b)
	vf.Assert("concatenate", eqInts(c.AsArray(), cat(xs, ys)))
	vf.Assert("concatenate-left-unchanged", eqInts(a.AsArray(), xs))
	vf.Assert("concatenate-right-unchanged", eqInts(b.AsArray(), ys))
	d := cls.Concatenate(a, a)
	vf.Assert("concatenate-self", eqInts(d.AsArray(), cat(xs, xs)))
	vf.Reach("end")
}

// ---- Array[int] ----

func VF_C01_ArrayAccess(n, op int) {
	xs := vf.Ints("xs", n)
	a := newArr(xs)
	idx := vf.Int("index")
	valid := validIdx(idx, n)
	switch op {
	case 0:
		var got int
		p, _ := vf.Panics(func() { got = a.GetValue(idx) })
		vf.Assert("get-panic-iff-outside", p == !valid)
		if !p {
			vf.Assert("get-value", got == sel(xs, norm(idx, n)))
		}
		vf.Assert("get-unchanged", eqInts(a.AsArray(), xs))
	case 1:
		v := vf.Int("v")
		p, _ := vf.Panics(func() { a.SetValue(idx, v) })
		vf.Assert("set-panic-iff-outside", p == !valid)
		after := a.AsArray()
		if p {
			vf.Assert("set-unchanged-on-panic", eqInts(after, xs))
		} else {
			k := norm(idx, n)
			ok := len(after) == n
			if ok {
				for i := range after {
					ok = vf.And(ok, after[i] == vf.IteInt(k == i, v, xs[i]))
				}
			}
			vf.Assert("set-only-addressed-slot", ok)
		}
	case 2:
		last := vf.Int("last")
		var got col.Sequential[int]
		p, _ := vf.Panics(func() { got = a.GetValues(idx, last) })
		valid2 := vf.And(valid, validIdx(last, n))
		f, t := norm(idx, n), norm(last, n)
		inverted := vf.And(valid2, f > t)
		vf.Assert("getvalues-panic-if-outside", vf.Implies(!valid2, p))
		vf.Assert("getvalues-returns-if-valid", vf.Implies(vf.And(valid2, !inverted), !p))
		if !p {
			if vf.And(valid2, !inverted) {
				fc := vf.Concrete(f, 0, n-1)
				tc := vf.Concrete(t, 0, n-1)
				vf.Assert("getvalues-values", eqInts(got.AsArray(), xs[fc:tc+1]))
			} else {
				vf.Assert("getvalues-inverted-empty", got.GetSize() == 0)
			}
		}
		vf.Assert("getvalues-unchanged", eqInts(a.AsArray(), xs))
	case 3:
		vf.Assert("size", a.GetSize() == n)
		vf.Assert("empty", a.IsEmpty() == (n == 0))
		vf.Assert("iteration", eqInts(iterInts(a.GetIterator()), xs))
		z := col.Array[int](nil).Make(uint(n))
		ok := z.GetSize() == n
		for _, v := range z.AsArray() {
			ok = vf.And(ok, v == 0)
		}
		vf.Assert("make-zeroed", ok)
		s := col.Array[int](nil).MakeFromSequence(newList(xs))
		vf.Assert("from-sequence", eqInts(s.AsArray(), xs))
	}
	vf.Reach("end")
}

func VF_C01_ArraySetValues(n, m int) {
	xs := vf.Ints("xs", n)
	ys := vf.Ints("ys", m)
	a := newArr(xs)
	idx := vf.Int("index")
	p, _ := vf.Panics(func() { a.SetValues(idx, newArr(ys)) })
	k := norm(idx, n)
	fits := vf.And(validIdx(idx, n), k+m <= n)
	after := a.AsArray()
	if m == 0 {
		vf.Assert("empty-operand-unchanged", eqInts(after, xs))
	} else {
		vf.Assert("panic-iff-does-not-fit", p == !fits)
		if p {
			vf.Assert("unchanged-on-panic", eqInts(after, xs))
		} else {
			kc := vf.Concrete(k, 0, n-1)
			vf.Assert("overwrites-range", eqInts(after, cat(xs[:kc], ys, xs[kc+m:])))
		}
	}
	vf.Reach("end")
}
