#!/usr/bin/env python3
"""tools/seedimport.py <prop> <name> <srcdir> <detected:yes|no|pending> <by-check> -- keep a confirmed seeded change under /verif/seeded/<prop>-<name>/"""
import sys, os, shutil, json, re
prop, name, src, detected, by = sys.argv[1:6]
dst = f"/verif/seeded/{prop}-{name}"
os.makedirs(dst, exist_ok=True)
shutil.copy(f"{src}/patch.diff", f"{dst}/patch.diff")
demo_path = open(f"{src}/demo_path.txt").read().strip()
shutil.copy(f"{src}/demo_test.go", f"{dst}/demo_test.go.txt")
open(f"{dst}/demo_path.txt","w").write(demo_path+"\n")
notes = open(f"{src}/notes.md").read()
meta = {
 "property": prop,
 "seed": f"{prop}-{name}",
 "demo_path": demo_path,
 "demo_file": "demo_test.go.txt (copy to demo_path inside a scratch worktree to run)",
 "needs_to_manifest": notes[:1500],
 "confirmed": "tools/seedtest.sh: in a scratch worktree the existing suite passes with the patch, the demo fails with it and passes without it",
 "what_was_run": f"tools/seedtest.sh {prop} <seed dir>  (applies patch.diff to /repo, runs ./check {prop} quick, git checkout -- .)",
 "detected_by_check": detected,
 "detected_by": by,
}
json.dump(meta, open(f"{dst}/meta.json", "w"), indent=1)
print("kept", dst)
