#!/usr/bin/env python3
"""Regenerate /verif/MANIFEST.json from the table below (keeps it schema-valid)."""
import json, os
HERE = os.path.dirname(os.path.dirname(os.path.abspath(__file__)))
props = [json.loads(l)['id'] for l in open(os.path.join(HERE, 'properties.jsonl'))]

SE_NOTE = ("Trusted: go/ssa construction, the executor's instruction semantics and its models of reflect, strings, "
           "maps, channels and sync (validated by replaying every counterexample natively), the oracle in the harness, z3. "
           "Claims hold only inside the stated size bounds; nothing is claimed beyond them.")

claimed = {
 # id: (category, text, technique, design_ref, extra note)
 "C01": ("other", "Bounded symbolic execution of the real List/Array code (go/ssa -> SMT): one-step inductive check from an arbitrary state of size <= N with fully symbolic 64-bit indices, slots, ranges and operand contents; every assertion instance is an SMT query decided unsat by z3, step budget as unwinding assertion. Covers all argument values at each size, not all sizes.", "symbolic execution of go/ssa + SMT (z3), one-step induction", "3/C01"),
 "C17": ("other", "Bounded symbolic execution of the real iterator code: one move from an arbitrary cursor (symbolic slot, symbolic 64-bit ToSlot argument) over symbolic contents, size <= N; snapshot harnesses per collection kind.", "symbolic execution of go/ssa + SMT (z3), one-step induction", "3/C17"),
}
claimed["C09"] = ("other", "Bounded symbolic execution of the real merge sorter, ReverseValues and ShuffleValues (go/ssa -> SMT) on arrays of n symbolic values: ranker as an (Ackermannized) uninterpreted function covers every total preorder in one run, an unconstrained ranker covers inconsistent rankers (termination via step budget + permutation), crypto/rand draws are symbolic. Exhaustive over all values, rankers and draws at each length <= bound.", "symbolic execution of go/ssa + SMT (z3, cvc5 fallback), uninterpreted-function ranker", "3/C09")
claimed["C13"] = ("other", "One-step symbolic check of the real stack code against the LIFO model from every state of size <= capacity (capacities 1..4 and the default 16), constructors from 0..33 initial values; contents symbolic.", "symbolic execution of go/ssa + SMT (z3), one-step induction", "3/C13")
claimed["C02"] = ("other", "One-step inductive symbolic check of the real Set code: pre-state any strictly ascending content of size <= N under a collator given as an (Ackermannized) uninterpreted function - default, reversed and coarse total preorders in one run - plus the real reflective collator for int and string; one operation with a symbolic value; asserts strict ascent, duplicate-freedom and agreement with the mathematical set.", "symbolic execution of go/ssa + SMT (z3, cvc5 fallback), uninterpreted-function collator, one-step induction", "3/C02")
claimed["C03"] = ("other", "One-step inductive symbolic check of the real Catalog code against an insertion-ordered map model for key types int, string, rune, float64, any and *int (distinct pointers with symbolic pointees); every view compared with the model; Go map iteration order is a choice point (all orders for n<=3).", "symbolic execution of go/ssa + SMT (z3), one-step induction, symbolic map model", "3/C03")
claimed["C14"] = ("other", "One-step inductive symbolic check of the real Map code against a Go-map model (key types int, string, rune, any); views compared as multisets under enumerated iteration orders of the symbolic map model; constructors with repeated keys.", "symbolic execution of go/ssa + SMT (z3), one-step induction, symbolic map model", "3/C14")
claimed["C15"] = ("other", "Bounded symbolic execution of And/Or/Sans/Xor on arbitrary reachable operand sets with symbolic contents under an uninterpreted-function collator and the real collator for int; result ordered, duplicate-free, exact members; operands unchanged and independent of the result.", "symbolic execution of go/ssa + SMT (z3; cvc5 for 64-bit natural order), uninterpreted-function collator", "3/C15")
claimed["C16"] = ("other", "Bounded symbolic execution of Merge, Extract and Concatenate on operands with symbolic contents (key coincidences chosen by the solver); documented laws through every view; purity and absence of shared mutable state by writing through one side and re-checking the other; aliased operands.", "symbolic execution of go/ssa + SMT (z3)", "3/C16")
claimed["C18"] = ("other", "Bounded symbolic execution of every API entry point that accepts or returns a Go array, map or sequence: one side is overwritten with fresh symbolic values at every position, the other must still read its old contents (unsat of 'they differ'); self-operand bulk operations compared with copy semantics.", "symbolic execution of go/ssa + SMT (z3)", "3/C18")
claimed["C20"] = ("other", "Finite matrix of universal constructors x argument forms x element types with symbolic contents, each compared with the class-level constructor; CDCN-source form via a stub notation with symbolic parse result; Stack/Queue sizes spanning the default capacity; Association for ten type pairs.", "symbolic execution of go/ssa + SMT (z3), form/type matrix enumerated", "3/C20")
claimed["C07"] = ("other", "Bounded symbolic execution of the real reflective collator through the engine's reflect model on triples of symbolic values per type and shape: reflexivity, mirror, transitivity, natural order, depth restoration, history independence, map-order independence. Floats are IEEE terms (NaN, signed zeros included); complex numbers only at enumerated special values. Listed known findings: NaN and special complex values.", "symbolic execution of go/ssa with a reflect model + SMT (z3, cvc5 for 64-bit order / floats)", "3/C07", "The reflect model is part of the trusted base; complex magnitude/phase are outside SMT reach (special values enumerated).")
claimed["C08"] = ("other", "Bounded symbolic execution of CompareValues/RankValues: equivalence laws, agreement with ranking, rebuilt copies equal, every single-point mutation unequal (symbolic replacement leaf: equal iff leaf equal), cyclic values end in the depth-limit panic and the same collator keeps working, List/Set membership agreement.", "symbolic execution of go/ssa with a reflect model + SMT (z3, cvc5)", "3/C08")
claimed["C12"] = ("other", "Bounded symbolic execution of the real ParseSource (scanner goroutine under a coroutine scheduler, token queue, regex VM over the real regexp/syntax program, parser) on every string of L arbitrary bytes, on every prefix / single-byte substitution / deletion of five valid documents with an arbitrary byte, on context mismatches and on long tails after an error: returns or a located textual diagnostic, never a run-time error, no goroutine left.", "symbolic execution of go/ssa (goroutines as coroutines, regex VM) + SMT (z3)", "3/C12", "Canonical schedule for the scanner goroutine; inputs longer than L only as the listed documents with one arbitrary byte.")
claimed["C11"] = ("other", "Lexical level: for every token type and length the solver searches a string of the reference language (Syntax.cdsn expression definitions re-stated as combinators over symbolic bytes) that the real scanner does not scan as exactly that token. Sentence level: the real ParseSource on templates of the grammar rules (all seven contexts, inline/multi-line/empty, nesting) with symbolic digits and letters must return the intended collection; boundary literals evaluate with Go semantics, unrepresentable ones are rejected; result independent of the scanner/parser interleaving up to a schedule bound.", "symbolic execution of go/ssa (regex VM, goroutine scheduler) + SMT (z3); sentence templates enumerated", "3/C11", "Sentences are templates (the solver decides the symbolic characters only); derivations beyond the templates and tokens longer than the bound are not covered.")
claimed["C10"] = ("other", "Bounded symbolic execution of FormatValue -> ParseSource -> compare / re-format on the real code with symbolic leaves (16-bit integers via a FormatInt contract stub and the real ParseInt, printable runes and characters through the real Quote/Unquote), listed boundary literals of every intrinsic type (floats concrete: strconv's digit generation is outside SMT reach), the seven kinds at sizes 0..3 nested one level, purity after successful and failed calls, termination and elision on self-containing and over-deep values.", "symbolic execution of go/ssa (reflect model, regex VM, goroutines) + SMT (z3); shapes enumerated as templates", "3/C10", "Partially applicable by design: arbitrary recursive shapes, sizes to 40 and float digit generation are outside the claim (DESIGN.md section 5).")
claimed["C19"] = ("other", "Non-interference by symbolic execution with an access log: for all pairs of operation families on disjoint instances (primitive and composite elements) the heap locations touched by the real code are recorded with locksets; a location touched by both, written by one, with no common lock is a violation (replayed natively in two goroutines under -race). Class accessors are explored under all interleavings at synchronisation operations for same / different fresh type parameters.", "symbolic execution of go/ssa with access/lockset log + SMT (z3); schedule choice points for the registries", "3/C19", "May-happen-in-parallel over explored paths, not full schedule exploration; sequential consistency.")
BMC_NOTE = ("Trusted: go/ssa construction and the executor that extracts the thread event trees from the real code, the "
            "sequentially consistent semantics of mutex / buffered channel / len / close / WaitGroup in the BMC back end (about 150 lines), "
            "the abstract-sequence summary of the value list behind the queue (its behaviour is property C01), the Lipton reduction "
            "(lock-protected regions, constant loads), the partial-order reduction to canonical schedules, z3 (QF_BV, bit-blasting). Receive "
            "branches pruned as infeasible are checked assumptions (reaching one is reported). Complete for every schedule of the programs "
            "listed as decided (unrolled to the static step bound or to a completeness threshold established by a query); programs run in "
            "search mode in the thorough tier are bug hunting only and nothing is claimed for them, nor for larger programs or relaxed memory. "
            "Witnesses are replayed natively under the race detector with randomised pauses (probabilistic reproduction; a witness that does "
            "not reproduce makes the check inconclusive, exit 2).")
claimed["C04"] = ("model_checking", "Bounded model checking with a symbolic schedule of the real queue code: per-thread event trees are extracted from the SSA by symbolic execution (trace mode), unrolled as a transition system with one schedule variable per step; safety (history assertions for linearizable FIFO, exactly-once, back-pressure, observers, no panic), deadlock and data-race queries over all schedules of small producer/consumer/closer/observer programs.", "SSA -> thread event trees (symbolic execution) -> BMC with symbolic schedule (z3, QF_BV)", "4", BMC_NOTE)
claimed["C05"] = ("model_checking", "Deadlock / lost wake-up query of the same BMC over all schedules of producer/consumer/closer programs (well-formed programs terminate with every value consumed), plus bounded symbolic execution of every queue constructor form for 0..64 initial values (a send on the constructor's own full queue is a reported deadlock).", "BMC with symbolic schedule (z3, QF_BV) + symbolic execution of the constructors", "4", BMC_NOTE)
claimed["C06"] = ("model_checking", "BMC with a symbolic schedule of Fork, Split and Join: helper closures extracted from the SSA of queue.go with feeder, readers and a wait-group waiter; asserts per-output order, round-robin partition, Split-Join identity, closure of every output, wait group back to zero, no deadlock / panic / race over all schedules of the listed small programs.", "SSA -> thread event trees (symbolic execution) -> BMC with symbolic schedule (z3, QF_BV)", "4", BMC_NOTE)
reasons = {}

checks = []
for p in props:
    if p in claimed:
        cat, text, tech, ref, *rest = claimed[p]
        bmc = cat == "model_checking"
        checks.append({
            "property_id": p,
            "quick_cmd": f"./check {p} quick",
            "thorough_cmd": f"./check {p} thorough",
            "evidence_file": f"/verif/evidence/{p}.json",
            "replay_cmd_template": f"./check {p} replay {{path}}",
            "engine": "syncbmc" if bmc else "gosym",
            "level_claimed": {"category": cat, "text": text, "design_ref": "DESIGN.md section " + ref},
            "level_note": (rest[0] if bmc else SE_NOTE + (" " + rest[0] if rest else "")),
            "technique": tech,
        })
na = [{"property_id": p, "reason": reasons.get(p, "check not built yet (work in progress; see DESIGN.md section 6 for the build order)")} for p in props if p not in claimed]
m = {
 "version": 1,
 "setup_cmd": "./check build",
 "hooks": {"guard": "verif", "enable": "harness files live in /verif/harness and are injected as virtual files /repo/v4/zzvf, /repo/v4/zzvh (build tag verif) through packages.Config.Overlay / go test -overlay; nothing is written into /repo",
           "baseline_off_cmd": "cd /repo/v4 && GOFLAGS=-mod=mod GOPROXY=off go test -vet=off -count=1 ./...", "source_commits": [], "add_only": True},
 "engines": [{"name": "gosym", "path": "/verif/engine", "serves_properties": sorted(k for k in claimed if claimed[k][0] != "model_checking"), "kind_free_text": "symbolic executor for go/ssa (decision-vector path exploration, z3/cvc5 over stdin, reflect/strings/regexp/map/channel models, native replay of counterexamples)"},
             {"name": "syncbmc", "path": "/verif/engine/sym/trace.go, /verif/engine/sym/bmc.go", "serves_properties": ["C04", "C05", "C06"], "kind_free_text": "bounded model checker with symbolic schedule over thread event trees extracted from the SSA by gosym in trace mode"}],
 "checks": checks,
 "notes": "exit 0 = all obligations unsat within bounds (KNOWN-FINDING lines for listed findings); exit 1 = reproduced counterexample (VIOLATION line); exit 2 = inconclusive (no VIOLATION line). Fix commits in /repo: see known_findings.json.",
 "not_applicable": na,
}
json.dump(m, open(os.path.join(HERE, 'MANIFEST.json'), 'w'), indent=1)
print("claimed:", sorted(claimed), "pending:", len(na))
