#!/bin/bash
# tools/seedtest.sh <prop> <seed-dir>   -- confirm a seeded change and run the check against it.
# 1. scratch worktree: existing tests pass with the patch; demo fails with it and passes without.
# 2. apply to /repo, run ./check <prop> quick, undo.
set -u
prop=$1; sd=$(realpath $2)
export GOFLAGS=-mod=mod GOPROXY=off GOSUMDB=off GOTOOLCHAIN=local
wt=$(mktemp -d /tmp/seedwt.XXXX); rmdir $wt
git -C /repo worktree add -q --detach $wt HEAD || exit 3
demo=$(cat $sd/demo_path.txt | tr -d '\n ')
res=""
( cd $wt && git apply $sd/patch.diff ) || { echo "SEED patch does not apply"; git -C /repo worktree remove --force $wt; exit 3; }
( cd $wt/v4 && go build ./... && go test -vet=off -count=1 ./... >/tmp/seed.suite.log 2>&1 ) && res="suite=pass" || res="suite=FAIL"
if [ -f $sd/demo_test.go ]; then cp $sd/demo_test.go $wt/$demo; else cp $sd/demo_test.go.txt $wt/$demo; fi
demodir=$(dirname $demo)
( cd $wt/$demodir && go test -vet=off -count=1 -run . . >/tmp/seed.demo1.log 2>&1 ) && res="$res demo_with_patch=pass(BAD)" || res="$res demo_with_patch=fail(ok)"
( cd $wt && git apply -R $sd/patch.diff )
( cd $wt/$demodir && go test -vet=off -count=1 -run . . >/tmp/seed.demo2.log 2>&1 ) && res="$res demo_without=pass(ok)" || res="$res demo_without=FAIL(BAD)"
git -C /repo worktree remove --force $wt
echo "SEED $prop $sd: $res"
# run the check against /repo with the patch applied
git -C /repo apply $sd/patch.diff || { echo "cannot apply to /repo"; exit 3; }
( cd /verif && timeout 1800 ./check $prop ${3:-quick} > /tmp/seed.check.log 2>&1 ); rc=$?
git -C /repo checkout -- .
echo "CHECK $prop exit=$rc"; grep -m3 "VIOLATION\|INCONCLUSIVE" /tmp/seed.check.log | cut -c1-220
exit 0
