#!/bin/bash
# tools/seedtest.sh <prop> <seed-dir>   -- confirm a seeded change and run the check against it.
# 1. scratch worktree: existing tests pass with the patch; demo fails with it and passes without.
# 2. run ./check <prop> quick against the scratch worktree with the patch applied (SEED_IN_REPO=1: apply to
#    /repo itself, run, git checkout -- .).
set -u
prop=$1; sd=$(realpath $2)
export GOFLAGS=-mod=mod GOPROXY=off GOSUMDB=off GOTOOLCHAIN=local
wt=$(mktemp -d /tmp/seedwt.XXXX); rmdir $wt
git -C /repo worktree add -q --detach $wt HEAD || exit 3
demo=$(cat $sd/demo_path.txt | tr -d '\n ')
res=""
( cd $wt && git apply $sd/patch.diff ) || { echo "SEED patch does not apply"; git -C /repo worktree remove --force $wt; exit 3; }
( cd $wt/v4 && go build ./... && go test -vet=off -count=1 ./... >/tmp/seed.suite.$$.log 2>&1 ) && res="suite=pass" || res="suite=FAIL"
if [ -f $sd/demo_test.go ]; then cp $sd/demo_test.go $wt/$demo; else cp $sd/demo_test.go.txt $wt/$demo; fi
demodir=$(dirname $demo)
( cd $wt/$demodir && go test -vet=off -count=1 -run . . >/tmp/seed.demo1.$$.log 2>&1 ) && res="$res demo_with_patch=pass(BAD)" || res="$res demo_with_patch=fail(ok)"
( cd $wt && git apply -R $sd/patch.diff )
( cd $wt/$demodir && go test -vet=off -count=1 -run . . >/tmp/seed.demo2.$$.log 2>&1 ) && res="$res demo_without=pass(ok)" || res="$res demo_without=FAIL(BAD)"
echo "SEED $prop $sd: $res"
tier=${3:-quick}
log=/tmp/seed.check.$$.log
if [ "${SEED_IN_REPO:-0}" = 1 ]; then
  # the literal procedure: apply to /repo, run the registered command, undo
  git -C /repo worktree remove --force $wt
  git -C /repo apply $sd/patch.diff || { echo "cannot apply to /repo"; exit 3; }
  ( cd /verif && timeout 1800 ./check $prop $tier > $log 2>&1 ); rc=$?
  git -C /repo checkout -- .
else
  # same check, pointed at the scratch worktree with the patch applied (safe to run several at once;
  # evidence and replays go to the worktree, not to /verif)
  rm -f $wt/$demo
  ( cd $wt && git apply $sd/patch.diff )
  ( cd /verif && timeout 1800 ./check $prop $tier -repo $wt/v4 -out $wt/.vfout > $log 2>&1 ); rc=$?
  git -C /repo worktree remove --force $wt
fi
echo "CHECK $prop exit=$rc"; grep -m4 "VIOLATION\|INCONCLUSIVE\|KNOWN" $log | cut -c1-220; grep -A1 -m2 "VIOLATION" $log | grep harness= | head -2 | cut -c1-200
rm -f $log
exit 0
