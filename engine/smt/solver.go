package smt

import (
	"bufio"
	"fmt"
	"io"
	"os"
	"os/exec"
	"strconv"
	"strings"
	"time"
)

type Result int

const (
	Unsat Result = iota
	Sat
	Unknown
)

func (r Result) String() string { return [...]string{"unsat", "sat", "unknown"}[r] }

// Solver is a long-lived SMT solver process driven over stdin/stdout.
type Solver struct {
	Bin     string
	cmd     *exec.Cmd
	in      io.WriteCloser
	w       *bufio.Writer
	out     *bufio.Reader
	Queries int
	Time    time.Duration
	Errors  int // number of "(error" lines seen: any makes the affected query inconclusive
	LastErr string
	Trace   io.Writer
	HardMs  int // a check-sat that has not answered after this long gets the process killed (0 = never)
}

// Start launches bin ("z3", "z3-new" or "cvc5") in incremental mode.
func Start(bin string, timeoutMs int) (*Solver, error) { return StartLogic(bin, timeoutMs, "") }

// StartLogic is Start with an explicit (set-logic ...).  With QF_BV z3 decides bit-vector-only
// problems by bit-blasting in its SAT core, which for the model-checking queries is two orders of
// magnitude faster than the default combination; an "(error" answer to any later command still
// makes the affected query inconclusive.
func StartLogic(bin string, timeoutMs int, logic string) (*Solver, error) {
	var args []string
	switch {
	case strings.Contains(bin, "cvc5"):
		args = []string{"--incremental", "--lang=smt2", "--produce-models", fmt.Sprintf("--tlimit-per=%d", timeoutMs)}
	default:
		args = []string{"-in", fmt.Sprintf("-t:%d", timeoutMs)}
	}
	cmd := exec.Command(bin, args...)
	in, err := cmd.StdinPipe()
	if err != nil {
		return nil, err
	}
	out, err := cmd.StdoutPipe()
	if err != nil {
		return nil, err
	}
	cmd.Stderr = nil
	if err := cmd.Start(); err != nil {
		return nil, err
	}
	s := &Solver{Bin: bin, cmd: cmd, in: in, w: bufio.NewWriterSize(in, 1<<16), out: bufio.NewReaderSize(out, 1<<16), HardMs: timeoutMs + timeoutMs/2 + 10000}
	if tf := os.Getenv("VF_SMT_TRACE"); tf != "" {
		f, _ := os.Create(fmt.Sprintf("%s.%d", tf, cmd.Process.Pid))
		s.Trace = f
	}
	if logic == "" && !strings.Contains(bin, "cvc5") {
		logic = os.Getenv("VF_SMT_LOGIC")
	}
	if logic != "" {
		s.Send("(set-logic " + logic + ")\n")
	} else if strings.Contains(bin, "cvc5") {
		s.Send("(set-logic ALL)\n")
	}
	s.Send("(set-option :produce-models true)\n")
	return s, nil
}

// Kill terminates the solver process at once (watchdogs); later commands fail and checks answer unknown.
func (s *Solver) Kill() {
	if s != nil && s.cmd != nil && s.cmd.Process != nil {
		s.cmd.Process.Kill()
	}
}

func (s *Solver) Close() {
	if s == nil || s.cmd == nil {
		return
	}
	s.w.Flush()
	s.in.Close()
	done := make(chan struct{})
	go func() { s.cmd.Wait(); close(done) }()
	select {
	case <-done:
	case <-time.After(2 * time.Second):
		s.cmd.Process.Kill()
	}
	s.cmd = nil
}

func (s *Solver) Send(text string) {
	if text == "" {
		return
	}
	if s.Trace != nil {
		io.WriteString(s.Trace, text)
	}
	s.w.WriteString(text)
}

func (s *Solver) flush() { s.w.Flush() }

// Check runs (check-sat) and returns the verdict.  Any "(error" line seen
// before the verdict turns the answer into Unknown.
func (s *Solver) Check() Result {
	t0 := time.Now()
	s.Send("(check-sat)\n")
	s.flush()
	s.Queries++
	res := Unknown
	sawErr := false
	if s.HardMs > 0 && s.cmd != nil && s.cmd.Process != nil {
		// the solver's own time limit is a soft one; do not wait for ever
		proc := s.cmd.Process
		timer := time.AfterFunc(time.Duration(s.HardMs)*time.Millisecond, func() { proc.Kill() })
		defer timer.Stop()
	}
	for {
		line, err := s.out.ReadString('\n')
		if err != nil {
			s.LastErr = "solver died: " + err.Error()
			s.Errors++
			s.Time += time.Since(t0)
			return Unknown
		}
		line = strings.TrimSpace(line)
		if s.Trace != nil {
			fmt.Fprintf(s.Trace, "; -> %s\n", line)
		}
		switch {
		case line == "sat":
			res = Sat
		case line == "unsat":
			res = Unsat
		case line == "unknown" || line == "timeout":
			res = Unknown
		case strings.HasPrefix(line, "(error"):
			sawErr = true
			s.Errors++
			s.LastErr = line
			continue
		case line == "":
			continue
		default:
			continue
		}
		break
	}
	s.Time += time.Since(t0)
	if sawErr {
		return Unknown
	}
	return res
}

// GetValues asks for the values of the given expressions (after a sat answer)
// and returns them as raw bit patterns.
func (s *Solver) GetValues(refs []string) (map[string]uint64, error) {
	res := map[string]uint64{}
	const chunk = 200
	for i := 0; i < len(refs); i += chunk {
		j := i + chunk
		if j > len(refs) {
			j = len(refs)
		}
		s.Send("(get-value (" + strings.Join(refs[i:j], " ") + "))\n")
		s.flush()
		txt, err := s.readSexp()
		if err != nil {
			return nil, err
		}
		if strings.HasPrefix(strings.TrimSpace(txt), "(error") {
			s.Errors++
			s.LastErr = txt
			return nil, fmt.Errorf("get-value: %s", txt)
		}
		toks := tokenize(txt)
		pos := 0
		var parse func() interface{}
		parse = func() interface{} {
			if toks[pos] == "(" {
				pos++
				var l []interface{}
				for toks[pos] != ")" {
					l = append(l, parse())
				}
				pos++
				return l
			}
			pos++
			return toks[pos-1]
		}
		top, ok := parse().([]interface{})
		if !ok {
			return nil, fmt.Errorf("get-value: bad reply %q", txt)
		}
		for k, e := range top {
			pair, ok := e.([]interface{})
			if !ok || len(pair) != 2 {
				return nil, fmt.Errorf("get-value: bad pair in %q", txt)
			}
			v, err := parseValue(pair[1])
			if err != nil {
				return nil, err
			}
			res[refs[i+k]] = v
		}
	}
	return res, nil
}

func parseValue(v interface{}) (uint64, error) {
	switch x := v.(type) {
	case string:
		switch {
		case x == "true":
			return 1, nil
		case x == "false":
			return 0, nil
		case strings.HasPrefix(x, "#x"):
			return strconv.ParseUint(x[2:], 16, 64)
		case strings.HasPrefix(x, "#b"):
			return strconv.ParseUint(x[2:], 2, 64)
		}
	case []interface{}:
		// (_ bvN w)
		if len(x) == 3 {
			if s, ok := x[0].(string); ok && s == "_" {
				if b, ok := x[1].(string); ok && strings.HasPrefix(b, "bv") {
					return strconv.ParseUint(b[2:], 10, 64)
				}
			}
		}
	}
	return 0, fmt.Errorf("unparsed model value %v", v)
}

func tokenize(s string) []string {
	var toks []string
	i := 0
	for i < len(s) {
		c := s[i]
		switch {
		case c == '(' || c == ')':
			toks = append(toks, string(c))
			i++
		case c == ' ' || c == '\n' || c == '\t' || c == '\r':
			i++
		case c == '|':
			j := strings.IndexByte(s[i+1:], '|')
			toks = append(toks, s[i:i+j+2])
			i += j + 2
		default:
			j := i
			for j < len(s) && !strings.ContainsRune("() \n\t\r", rune(s[j])) {
				j++
			}
			toks = append(toks, s[i:j])
			i = j
		}
	}
	return toks
}

// readSexp reads one balanced s-expression from the solver.
func (s *Solver) readSexp() (string, error) {
	var sb strings.Builder
	depth := 0
	started := false
	inBar := false
	for {
		b, err := s.out.ReadByte()
		if err != nil {
			return sb.String(), err
		}
		sb.WriteByte(b)
		if inBar {
			if b == '|' {
				inBar = false
			}
			continue
		}
		switch b {
		case '|':
			inBar = true
		case '(':
			depth++
			started = true
		case ')':
			depth--
		}
		if started && depth == 0 {
			return sb.String(), nil
		}
	}
}
