// Package smt is a small SMT-LIB2 term builder with constant folding.
//
// Sorts: Bool, bit-vectors of width 1..64 and IEEE floats (32/64).  Every
// constructor folds constants, so a fully concrete execution never produces a
// non-constant term and never talks to a solver.
package smt

import (
	"fmt"
	"math"
	"math/bits"
	"strings"
	"sync/atomic"
)

type Kind uint8

const (
	KBool Kind = iota
	KBV
	KFP
)

type Sort struct {
	K Kind
	W int // width for KBV, 32/64 for KFP
}

var Bool = Sort{KBool, 0}

func BV(w int) Sort { return Sort{KBV, w} }
func FP(w int) Sort { return Sort{KFP, w} }

func (s Sort) String() string {
	switch s.K {
	case KBool:
		return "Bool"
	case KBV:
		return fmt.Sprintf("(_ BitVec %d)", s.W)
	default:
		if s.W == 32 {
			return "(_ FloatingPoint 8 24)"
		}
		return "(_ FloatingPoint 11 53)"
	}
}

// Term is an immutable node of a term DAG.
type Term struct {
	Op    string // "const", "var", "app:<name>" (uninterpreted), or an SMT operator
	Args  []*Term
	S     Sort
	C     uint64 // constant payload (bool 0/1, bit-vector bits, float bits)
	Name  string // variable / function name
	ID    int64
	key   [2]uint64
	keyed bool
}

// Key is a 128-bit structural fingerprint (equal structure => equal key).
func (t *Term) Key() [2]uint64 {
	if t.keyed {
		return t.key
	}
	h1, h2 := uint64(14695981039346656037), uint64(0x9e3779b97f4a7c15)
	mix := func(v uint64) {
		h1 = (h1 ^ v) * 1099511628211
		h2 = (h2 + v*0xff51afd7ed558ccd) ^ (h2>>29)*0xc4ceb9fe1a85ec53
	}
	for i := 0; i < len(t.Op); i++ {
		mix(uint64(t.Op[i]))
	}
	mix(uint64(t.S.K)<<8 | uint64(t.S.W))
	mix(t.C)
	for i := 0; i < len(t.Name); i++ {
		mix(uint64(t.Name[i]) + 131)
	}
	for _, a := range t.Args {
		k := a.Key()
		mix(k[0])
		mix(k[1])
	}
	t.key = [2]uint64{h1, h2}
	t.keyed = true
	return t.key
}

var idCounter int64

func mk(op string, s Sort, args ...*Term) *Term {
	return &Term{Op: op, Args: args, S: s, ID: atomic.AddInt64(&idCounter, 1)}
}

func (t *Term) IsConst() bool { return t.Op == "const" }

func mask(w int) uint64 {
	if w >= 64 {
		return ^uint64(0)
	}
	return (uint64(1) << uint(w)) - 1
}

// ---- constants and variables ----

var (
	True  = &Term{Op: "const", S: Bool, C: 1}
	False = &Term{Op: "const", S: Bool, C: 0}
)

func BoolC(b bool) *Term {
	if b {
		return True
	}
	return False
}

func BVC(w int, v uint64) *Term { return &Term{Op: "const", S: BV(w), C: v & mask(w)} }

func FPC64(f float64) *Term { return &Term{Op: "const", S: FP(64), C: math.Float64bits(f)} }
func FPC32(f float32) *Term { return &Term{Op: "const", S: FP(32), C: uint64(math.Float32bits(f))} }
func FPBits(w int, b uint64) *Term {
	if w == 32 {
		b &= 0xffffffff
	}
	return &Term{Op: "const", S: FP(w), C: b}
}

func Var(name string, s Sort) *Term {
	t := mk("var", s)
	t.Name = name
	return t
}

// App builds an application of an uninterpreted function.
func App(name string, ret Sort, args ...*Term) *Term {
	t := mk("app", ret, args...)
	t.Name = name
	return t
}

// SInt returns the constant as a sign-extended int64.
func (t *Term) SInt() int64 {
	w := t.S.W
	if w >= 64 {
		return int64(t.C)
	}
	if t.C&(uint64(1)<<uint(w-1)) != 0 {
		return int64(t.C | ^mask(w))
	}
	return int64(t.C)
}

func (t *Term) Float() float64 {
	if t.S.W == 32 {
		return float64(math.Float32frombits(uint32(t.C)))
	}
	return math.Float64frombits(t.C)
}

// ---- boolean ----

func Not(a *Term) *Term {
	if a.IsConst() {
		return BoolC(a.C == 0)
	}
	if a.Op == "not" {
		return a.Args[0]
	}
	return mk("not", Bool, a)
}

func And(a, b *Term) *Term {
	if a.IsConst() {
		if a.C == 0 {
			return False
		}
		return b
	}
	if b.IsConst() {
		if b.C == 0 {
			return False
		}
		return a
	}
	if a == b {
		return a
	}
	return mk("and", Bool, a, b)
}

func Or(a, b *Term) *Term {
	if a.IsConst() {
		if a.C == 1 {
			return True
		}
		return b
	}
	if b.IsConst() {
		if b.C == 1 {
			return True
		}
		return a
	}
	if a == b {
		return a
	}
	return mk("or", Bool, a, b)
}

func Implies(a, b *Term) *Term { return Or(Not(a), b) }

func Ite(c, a, b *Term) *Term {
	if c.IsConst() {
		if c.C == 1 {
			return a
		}
		return b
	}
	if a == b {
		return a
	}
	if a.IsConst() && b.IsConst() && a.S == b.S && a.C == b.C {
		return a
	}
	if a.S.K == KBool {
		if a.IsConst() && b.IsConst() {
			if a.C == 1 {
				return c
			}
			return Not(c)
		}
	}
	return mk("ite", a.S, c, a, b)
}

// Eq is sort-generic structural equality (for FP it is *bitwise* SMT equality;
// use FPEq for IEEE ==).
func Eq(a, b *Term) *Term {
	if a.S != b.S {
		panic(fmt.Sprintf("smt.Eq: sort mismatch %v vs %v", a.S, b.S))
	}
	if a == b {
		return True
	}
	if a.IsConst() && b.IsConst() {
		if a.S.K == KFP {
			// SMT "=" on floats identifies all NaNs.
			fa, fb := a.Float(), b.Float()
			if fa != fa && fb != fb {
				return True
			}
		}
		return BoolC(a.C == b.C)
	}
	if a.S.K == KBool {
		if a.IsConst() {
			if a.C == 1 {
				return b
			}
			return Not(b)
		}
		if b.IsConst() {
			if b.C == 1 {
				return a
			}
			return Not(a)
		}
	}
	return mk("=", Bool, a, b)
}

// ---- bit-vectors ----

func bvbin(op string, a, b *Term, f func(x, y uint64, w int) uint64) *Term {
	if a.S != b.S || a.S.K != KBV {
		panic(fmt.Sprintf("smt.%s: sort mismatch %v vs %v", op, a.S, b.S))
	}
	if a.IsConst() && b.IsConst() {
		return BVC(a.S.W, f(a.C, b.C, a.S.W))
	}
	return mk(op, a.S, a, b)
}

func sx(v uint64, w int) int64 {
	if w >= 64 {
		return int64(v)
	}
	if v&(uint64(1)<<uint(w-1)) != 0 {
		return int64(v | ^mask(w))
	}
	return int64(v)
}

func Add(a, b *Term) *Term {
	if b.IsConst() && b.C == 0 {
		return a
	}
	if a.IsConst() && a.C == 0 {
		return b
	}
	return bvbin("bvadd", a, b, func(x, y uint64, w int) uint64 { return x + y })
}
func Sub(a, b *Term) *Term {
	if b.IsConst() && b.C == 0 {
		return a
	}
	return bvbin("bvsub", a, b, func(x, y uint64, w int) uint64 { return x - y })
}
func Mul(a, b *Term) *Term {
	return bvbin("bvmul", a, b, func(x, y uint64, w int) uint64 { return x * y })
}
func BAnd(a, b *Term) *Term {
	return bvbin("bvand", a, b, func(x, y uint64, w int) uint64 { return x & y })
}
func BOr(a, b *Term) *Term {
	return bvbin("bvor", a, b, func(x, y uint64, w int) uint64 { return x | y })
}
func BXor(a, b *Term) *Term {
	return bvbin("bvxor", a, b, func(x, y uint64, w int) uint64 { return x ^ y })
}

// UDiv/URem/SDiv/SRem: callers must have excluded a zero divisor.
func UDiv(a, b *Term) *Term {
	return bvbin("bvudiv", a, b, func(x, y uint64, w int) uint64 {
		if y == 0 {
			return mask(w)
		}
		return x / y
	})
}
func URem(a, b *Term) *Term {
	return bvbin("bvurem", a, b, func(x, y uint64, w int) uint64 {
		if y == 0 {
			return x
		}
		return x % y
	})
}
func SDiv(a, b *Term) *Term {
	return bvbin("bvsdiv", a, b, func(x, y uint64, w int) uint64 {
		sxv, syv := sx(x, w), sx(y, w)
		if syv == 0 {
			if sxv < 0 {
				return 1
			}
			return mask(w)
		}
		if syv == -1 {
			return uint64(-sxv)
		}
		return uint64(sxv / syv)
	})
}
func SRem(a, b *Term) *Term {
	return bvbin("bvsrem", a, b, func(x, y uint64, w int) uint64 {
		sxv, syv := sx(x, w), sx(y, w)
		if syv == 0 {
			return x
		}
		if syv == -1 {
			return 0
		}
		return uint64(sxv % syv)
	})
}

// Shl/LShr/AShr take a shift amount of the same width (already widened by the caller).
func Shl(a, b *Term) *Term {
	return bvbin("bvshl", a, b, func(x, y uint64, w int) uint64 {
		if y >= uint64(w) {
			return 0
		}
		return x << y
	})
}
func LShr(a, b *Term) *Term {
	return bvbin("bvlshr", a, b, func(x, y uint64, w int) uint64 {
		if y >= uint64(w) {
			return 0
		}
		return (x & mask(w)) >> y
	})
}
func AShr(a, b *Term) *Term {
	return bvbin("bvashr", a, b, func(x, y uint64, w int) uint64 {
		s := sx(x, w)
		if y >= uint64(w) {
			if s < 0 {
				return mask(w)
			}
			return 0
		}
		return uint64(s >> y)
	})
}

func Neg(a *Term) *Term {
	if a.IsConst() {
		return BVC(a.S.W, -a.C)
	}
	return mk("bvneg", a.S, a)
}
func BNot(a *Term) *Term {
	if a.IsConst() {
		return BVC(a.S.W, ^a.C)
	}
	return mk("bvnot", a.S, a)
}

func bvcmp(op string, a, b *Term, f func(x, y uint64, w int) bool) *Term {
	if a.S != b.S || a.S.K != KBV {
		panic(fmt.Sprintf("smt.%s: sort mismatch %v vs %v", op, a.S, b.S))
	}
	if a.IsConst() && b.IsConst() {
		return BoolC(f(a.C, b.C, a.S.W))
	}
	return mk(op, Bool, a, b)
}

func ULt(a, b *Term) *Term {
	return bvcmp("bvult", a, b, func(x, y uint64, w int) bool { return x < y })
}
func ULe(a, b *Term) *Term {
	return bvcmp("bvule", a, b, func(x, y uint64, w int) bool { return x <= y })
}
func SLt(a, b *Term) *Term {
	return bvcmp("bvslt", a, b, func(x, y uint64, w int) bool { return sx(x, w) < sx(y, w) })
}
func SLe(a, b *Term) *Term {
	return bvcmp("bvsle", a, b, func(x, y uint64, w int) bool { return sx(x, w) <= sx(y, w) })
}

// Resize converts a bit-vector to width w, sign- or zero-extending.
func Resize(a *Term, w int, signed bool) *Term {
	if a.S.K != KBV {
		panic("smt.Resize: not a bit-vector")
	}
	if a.S.W == w {
		return a
	}
	if a.IsConst() {
		if w < a.S.W {
			return BVC(w, a.C)
		}
		if signed {
			return BVC(w, uint64(sx(a.C, a.S.W)))
		}
		return BVC(w, a.C)
	}
	if w < a.S.W {
		t := mk("extract", BV(w), a)
		t.C = uint64(w - 1)
		return t
	}
	op := "zero_extend"
	if signed {
		op = "sign_extend"
	}
	t := mk(op, BV(w), a)
	t.C = uint64(w - a.S.W)
	return t
}

func Concat(a, b *Term) *Term {
	w := a.S.W + b.S.W
	if a.IsConst() && b.IsConst() {
		return BVC(w, a.C<<uint(b.S.W)|b.C)
	}
	return mk("concat", BV(w), a, b)
}

func BoolToBV(c *Term, w int) *Term { return Ite(c, BVC(w, 1), BVC(w, 0)) }

// ---- floats ----

func fpcmp(op string, a, b *Term, f func(x, y float64) bool) *Term {
	if a.S != b.S || a.S.K != KFP {
		panic(fmt.Sprintf("smt.%s: sort mismatch %v vs %v", op, a.S, b.S))
	}
	if a.IsConst() && b.IsConst() {
		return BoolC(f(a.Float(), b.Float()))
	}
	return mk(op, Bool, a, b)
}

func FPLt(a, b *Term) *Term { return fpcmp("fp.lt", a, b, func(x, y float64) bool { return x < y }) }
func FPLe(a, b *Term) *Term { return fpcmp("fp.leq", a, b, func(x, y float64) bool { return x <= y }) }
func FPEq(a, b *Term) *Term { return fpcmp("fp.eq", a, b, func(x, y float64) bool { return x == y }) }

func FPIsNaN(a *Term) *Term {
	if a.IsConst() {
		f := a.Float()
		return BoolC(f != f)
	}
	return mk("fp.isNaN", Bool, a)
}
func FPIsInf(a *Term) *Term {
	if a.IsConst() {
		return BoolC(math.IsInf(a.Float(), 0))
	}
	return mk("fp.isInfinite", Bool, a)
}
func FPIsZero(a *Term) *Term {
	if a.IsConst() {
		return BoolC(a.Float() == 0)
	}
	return mk("fp.isZero", Bool, a)
}
func FPIsNeg(a *Term) *Term { // sign bit set and not NaN
	if a.IsConst() {
		f := a.Float()
		return BoolC(f == f && math.Signbit(f))
	}
	return mk("fp.isNegative", Bool, a)
}

func FPNeg(a *Term) *Term {
	if a.IsConst() {
		if a.S.W == 32 {
			return FPBits(32, a.C^0x80000000)
		}
		return FPBits(64, a.C^(1<<63))
	}
	return mk("fp.neg", a.S, a)
}

func fparith(op string, a, b *Term, f func(x, y float64) float64) *Term {
	if a.S != b.S || a.S.K != KFP {
		panic("smt." + op + ": sort mismatch")
	}
	if a.IsConst() && b.IsConst() {
		if a.S.W == 32 {
			return FPC32(float32(f(float64(float32(a.Float())), float64(float32(b.Float())))))
		}
		return FPC64(f(a.Float(), b.Float()))
	}
	return mk(op, a.S, a, b)
}

func FPAdd(a, b *Term) *Term {
	return fparith("fp.add", a, b, func(x, y float64) float64 { return x + y })
}
func FPSub(a, b *Term) *Term {
	return fparith("fp.sub", a, b, func(x, y float64) float64 { return x - y })
}
func FPMul(a, b *Term) *Term {
	return fparith("fp.mul", a, b, func(x, y float64) float64 { return x * y })
}
func FPDiv(a, b *Term) *Term {
	return fparith("fp.div", a, b, func(x, y float64) float64 { return x / y })
}

// FPConv converts between float widths (round to nearest even).
func FPConv(a *Term, w int) *Term {
	if a.S.W == w {
		return a
	}
	if a.IsConst() {
		if w == 32 {
			return FPC32(float32(a.Float()))
		}
		return FPC64(a.Float())
	}
	return mk("fp.to_fp", FP(w), a)
}

// IntToFP converts a bit-vector integer to a float.
func IntToFP(a *Term, w int, signed bool) *Term {
	if a.IsConst() {
		var f float64
		if signed {
			f = float64(a.SInt())
		} else {
			f = float64(a.C)
		}
		if w == 32 {
			if signed {
				return FPC32(float32(a.SInt()))
			}
			return FPC32(float32(a.C))
		}
		return FPC64(f)
	}
	op := "fp.from_ubv"
	if signed {
		op = "fp.from_sbv"
	}
	return mk(op, FP(w), a)
}

// FPToInt converts a float to a bit-vector (round toward zero); the result for
// out-of-range inputs is unspecified, as in Go.
func FPToInt(a *Term, w int, signed bool) *Term {
	if a.IsConst() {
		f := a.Float()
		if signed {
			return BVC(w, uint64(int64(f)))
		}
		return BVC(w, uint64(f))
	}
	op := "fp.to_ubv"
	if signed {
		op = "fp.to_sbv"
	}
	return mk(op, BV(w), a)
}

// FPToBits / BitsToFP reinterpret (math.Float64bits and friends).
func FPToBits(a *Term) *Term {
	if a.IsConst() {
		return BVC(a.S.W, a.C)
	}
	// No direct SMT-LIB function; callers should avoid this on symbolic floats.
	return mk("fp.to_ieee_bv", BV(a.S.W), a)
}
func BitsToFP(a *Term) *Term {
	if a.IsConst() {
		return FPBits(a.S.W, a.C)
	}
	return mk("bits_to_fp", FP(a.S.W), a)
}

// ---- printing ----

// Printer emits SMT-LIB text for terms, naming every shared non-leaf node once
// with define-fun so that DAGs do not blow up.
type Printer struct {
	defined map[*Term]string
	out     *strings.Builder
	n       int
	Funs    map[string]bool // declared uninterpreted functions
}

func NewPrinter() *Printer {
	return &Printer{defined: map[*Term]string{}, out: &strings.Builder{}, Funs: map[string]bool{}}
}

// Clone returns a printer that shares nothing with p but knows the same definitions.
func (p *Printer) Snapshot() (map[*Term]string, int) {
	m := make(map[*Term]string, len(p.defined))
	for k, v := range p.defined {
		m[k] = v
	}
	return m, p.n
}

func constText(t *Term) string {
	switch t.S.K {
	case KBool:
		if t.C == 1 {
			return "true"
		}
		return "false"
	case KBV:
		if t.S.W%4 == 0 {
			return fmt.Sprintf("#x%0*x", t.S.W/4, t.C)
		}
		return fmt.Sprintf("#b%0*b", t.S.W, t.C)
	default:
		if t.S.W == 32 {
			return fmt.Sprintf("((_ to_fp 8 24) #x%08x)", t.C)
		}
		return fmt.Sprintf("((_ to_fp 11 53) #x%016x)", t.C)
	}
}

// Ref returns the text that denotes t, emitting any needed declarations into
// the pending output (retrieved with Flush).
func (p *Printer) Ref(t *Term) string {
	if t.IsConst() {
		return constText(t)
	}
	if s, ok := p.defined[t]; ok {
		return s
	}
	var body string
	switch t.Op {
	case "var":
		fmt.Fprintf(p.out, "(declare-const %s %s)\n", quote(t.Name), t.S)
		p.defined[t] = quote(t.Name)
		return quote(t.Name)
	case "app":
		if !p.Funs[t.Name] {
			p.Funs[t.Name] = true
			var as []string
			for _, a := range t.Args {
				as = append(as, a.S.String())
			}
			fmt.Fprintf(p.out, "(declare-fun %s (%s) %s)\n", quote(t.Name), strings.Join(as, " "), t.S)
		}
		var as []string
		for _, a := range t.Args {
			as = append(as, p.Ref(a))
		}
		body = "(" + quote(t.Name) + " " + strings.Join(as, " ") + ")"
	case "extract":
		body = fmt.Sprintf("((_ extract %d 0) %s)", t.C, p.Ref(t.Args[0]))
	case "zero_extend", "sign_extend":
		body = fmt.Sprintf("((_ %s %d) %s)", t.Op, t.C, p.Ref(t.Args[0]))
	case "fp.to_fp":
		if t.S.W == 32 {
			body = fmt.Sprintf("((_ to_fp 8 24) RNE %s)", p.Ref(t.Args[0]))
		} else {
			body = fmt.Sprintf("((_ to_fp 11 53) RNE %s)", p.Ref(t.Args[0]))
		}
	case "fp.from_sbv":
		body = fmt.Sprintf("((_ to_fp %s) RNE %s)", fpdims(t.S.W), p.Ref(t.Args[0]))
	case "fp.from_ubv":
		body = fmt.Sprintf("((_ to_fp_unsigned %s) RNE %s)", fpdims(t.S.W), p.Ref(t.Args[0]))
	case "fp.to_sbv":
		body = fmt.Sprintf("((_ fp.to_sbv %d) RTZ %s)", t.S.W, p.Ref(t.Args[0]))
	case "fp.to_ubv":
		body = fmt.Sprintf("((_ fp.to_ubv %d) RTZ %s)", t.S.W, p.Ref(t.Args[0]))
	case "bits_to_fp":
		body = fmt.Sprintf("((_ to_fp %s) %s)", fpdims(t.S.W), p.Ref(t.Args[0]))
	case "fp.to_ieee_bv":
		// Encoded with a fresh variable constrained by to_fp (NaN payloads are not distinguished).
		p.n++
		name := fmt.Sprintf("|bits!%d|", p.n)
		fmt.Fprintf(p.out, "(declare-const %s %s)\n", name, t.S)
		fmt.Fprintf(p.out, "(assert (= ((_ to_fp %s) %s) %s))\n", fpdims(t.S.W), name, p.Ref(t.Args[0]))
		p.defined[t] = name
		return name
	case "fp.add", "fp.sub", "fp.mul", "fp.div":
		body = fmt.Sprintf("(%s RNE %s %s)", t.Op, p.Ref(t.Args[0]), p.Ref(t.Args[1]))
	default:
		var as []string
		for _, a := range t.Args {
			as = append(as, p.Ref(a))
		}
		body = "(" + t.Op + " " + strings.Join(as, " ") + ")"
	}
	p.n++
	name := fmt.Sprintf("t!%d", p.n)
	fmt.Fprintf(p.out, "(define-fun %s () %s %s)\n", name, t.S, body)
	p.defined[t] = name
	return name
}

func fpdims(w int) string {
	if w == 32 {
		return "8 24"
	}
	return "11 53"
}

func (p *Printer) Flush() string {
	s := p.out.String()
	p.out.Reset()
	return s
}

func quote(s string) string {
	return "|" + strings.NewReplacer("|", "_", "\\", "_").Replace(s) + "|"
}

// Eval evaluates t under an assignment of variables (by name) and UF tables.
// Used for replay validation and classifier evaluation.  Missing variables are 0.
func Eval(t *Term, env map[string]uint64) uint64 {
	memo := map[*Term]uint64{}
	var ev func(t *Term) uint64
	ev = func(t *Term) uint64 {
		if t.IsConst() {
			return t.C
		}
		if v, ok := memo[t]; ok {
			return v
		}
		var r uint64
		a := func(i int) *Term { return BVorSame(t.Args[i], ev(t.Args[i])) }
		switch t.Op {
		case "var":
			r = env[t.Name]
		case "not":
			r = Not(a(0)).C
		case "and":
			r = And(a(0), a(1)).C
		case "or":
			r = Or(a(0), a(1)).C
		case "ite":
			r = Ite(a(0), a(1), a(2)).C
		case "=":
			r = Eq(a(0), a(1)).C
		case "bvadd":
			r = Add(a(0), a(1)).C
		case "bvsub":
			r = Sub(a(0), a(1)).C
		case "bvmul":
			r = Mul(a(0), a(1)).C
		case "bvand":
			r = BAnd(a(0), a(1)).C
		case "bvor":
			r = BOr(a(0), a(1)).C
		case "bvxor":
			r = BXor(a(0), a(1)).C
		case "bvudiv":
			r = UDiv(a(0), a(1)).C
		case "bvurem":
			r = URem(a(0), a(1)).C
		case "bvsdiv":
			r = SDiv(a(0), a(1)).C
		case "bvsrem":
			r = SRem(a(0), a(1)).C
		case "bvshl":
			r = Shl(a(0), a(1)).C
		case "bvlshr":
			r = LShr(a(0), a(1)).C
		case "bvashr":
			r = AShr(a(0), a(1)).C
		case "bvneg":
			r = Neg(a(0)).C
		case "bvnot":
			r = BNot(a(0)).C
		case "bvult":
			r = ULt(a(0), a(1)).C
		case "bvule":
			r = ULe(a(0), a(1)).C
		case "bvslt":
			r = SLt(a(0), a(1)).C
		case "bvsle":
			r = SLe(a(0), a(1)).C
		case "extract":
			r = Resize(a(0), t.S.W, false).C
		case "zero_extend":
			r = Resize(a(0), t.S.W, false).C
		case "sign_extend":
			r = Resize(a(0), t.S.W, true).C
		case "concat":
			r = Concat(a(0), a(1)).C
		case "fp.lt":
			r = FPLt(a(0), a(1)).C
		case "fp.leq":
			r = FPLe(a(0), a(1)).C
		case "fp.eq":
			r = FPEq(a(0), a(1)).C
		case "fp.isNaN":
			r = FPIsNaN(a(0)).C
		case "fp.isInfinite":
			r = FPIsInf(a(0)).C
		case "fp.isZero":
			r = FPIsZero(a(0)).C
		case "fp.isNegative":
			r = FPIsNeg(a(0)).C
		case "fp.neg":
			r = FPNeg(a(0)).C
		case "fp.to_fp":
			r = FPConv(a(0), t.S.W).C
		default:
			panic("smt.Eval: unsupported op " + t.Op)
		}
		memo[t] = r
		return r
	}
	return ev(t)
}

// BVorSame wraps a raw payload back into a constant of t's sort.
func BVorSame(t *Term, c uint64) *Term {
	return &Term{Op: "const", S: t.S, C: c}
}

var _ = bits.Len64

// Show renders a term as an s-expression (diagnostics only; shared nodes are repeated).
func Show(t *Term) string {
	if t.IsConst() {
		switch t.S.K {
		case KBool:
			if t.C == 1 {
				return "true"
			}
			return "false"
		case KBV:
			return fmt.Sprint(t.C)
		}
		return fmt.Sprint(t.Float())
	}
	if t.Op == "var" {
		return t.Name
	}
	parts := []string{t.Op}
	if t.Op == "app" {
		parts = []string{t.Name}
	}
	for _, a := range t.Args {
		parts = append(parts, Show(a))
	}
	return "(" + strings.Join(parts, " ") + ")"
}

// Rebuild applies t's operator to new arguments (through the folding constructors).
func Rebuild(t *Term, a []*Term) *Term {
	switch t.Op {
	case "not":
		return Not(a[0])
	case "and":
		return And(a[0], a[1])
	case "or":
		return Or(a[0], a[1])
	case "ite":
		return Ite(a[0], a[1], a[2])
	case "=":
		return Eq(a[0], a[1])
	case "bvadd":
		return Add(a[0], a[1])
	case "bvsub":
		return Sub(a[0], a[1])
	case "bvmul":
		return Mul(a[0], a[1])
	case "bvand":
		return BAnd(a[0], a[1])
	case "bvor":
		return BOr(a[0], a[1])
	case "bvxor":
		return BXor(a[0], a[1])
	case "bvudiv":
		return UDiv(a[0], a[1])
	case "bvurem":
		return URem(a[0], a[1])
	case "bvsdiv":
		return SDiv(a[0], a[1])
	case "bvsrem":
		return SRem(a[0], a[1])
	case "bvshl":
		return Shl(a[0], a[1])
	case "bvlshr":
		return LShr(a[0], a[1])
	case "bvashr":
		return AShr(a[0], a[1])
	case "bvneg":
		return Neg(a[0])
	case "bvnot":
		return BNot(a[0])
	case "bvult":
		return ULt(a[0], a[1])
	case "bvule":
		return ULe(a[0], a[1])
	case "bvslt":
		return SLt(a[0], a[1])
	case "bvsle":
		return SLe(a[0], a[1])
	case "extract", "zero_extend":
		return Resize(a[0], t.S.W, false)
	case "sign_extend":
		return Resize(a[0], t.S.W, true)
	case "concat":
		return Concat(a[0], a[1])
	}
	panic("smt.Rebuild: unsupported op " + t.Op)
}
