package sym

type rxProg struct{}

func registerRegexp() {}
