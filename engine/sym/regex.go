package sym

import (
	"go/types"
	"regexp/syntax"
	"sync"
	"unicode"

	"golang.org/x/tools/go/ssa"

	"verif/engine/smt"
)

// Regular expressions: the pattern (a constant in the SSA, so edits to the
// scanner's constants are seen) is compiled with the real regexp/syntax to a
// syntax.Prog; matching runs on a backtracking VM over that program, in the
// program's alternation priority (= Go's leftmost-first semantics), forking
// lazily on rune-class tests of symbolic runes.

type rxProg struct {
	pattern string
	prog    *syntax.Prog
	ncap    int
}

var rxCache sync.Map

func compileRx(pattern string) (*rxProg, error) {
	if v, ok := rxCache.Load(pattern); ok {
		return v.(*rxProg), nil
	}
	re, err := syntax.Parse(pattern, syntax.Perl)
	if err != nil {
		return nil, err
	}
	ncap := re.MaxCap()
	re = re.Simplify()
	prog, err := syntax.Compile(re)
	if err != nil {
		return nil, err
	}
	p := &rxProg{pattern: pattern, prog: prog, ncap: ncap}
	rxCache.Store(pattern, p)
	return p, nil
}

func registerRegexp() {
	intrinsics["regexp.MustCompile"] = func(ex *Exec, c *frame, fn *ssa.Function, a []Value) Value {
		pat, ok := a[0].(string)
		if !ok {
			ex.abort("regexp.MustCompile with a non-constant pattern")
		}
		p, err := compileRx(pat)
		if err != nil {
			panic(&goPanic{V: Iface{T: types.Typ[types.String], V: "regexp: Compile(" + pat + "): " + err.Error()}, Msg: "regexp: Compile: " + err.Error()})
		}
		var cell Value = p
		return &cell
	}
	intrinsics["(*regexp.Regexp).FindStringSubmatch"] = func(ex *Exec, c *frame, fn *ssa.Function, a []Value) Value {
		p := (*(a[0].(*Value))).(*rxProg)
		return ex.rxFindSubmatch(p, a[1])
	}
	intrinsics["(*regexp.Regexp).MatchString"] = func(ex *Exec, c *frame, fn *ssa.Function, a []Value) Value {
		p := (*(a[0].(*Value))).(*rxProg)
		return smt.BoolC(ex.rxFindSubmatch(p, a[1]).(Slice) != nil)
	}
	intrinsics["(*regexp.Regexp).String"] = func(ex *Exec, c *frame, fn *ssa.Function, a []Value) Value {
		return (*(a[0].(*Value))).(*rxProg).pattern
	}
}

type rxRun struct {
	ex     *Exec
	p      *rxProg
	b      []*smt.Term
	caps   []int
	failed map[[2]int]bool
	runes  map[int]rxRune
	steps  int
}

type rxRune struct {
	r *smt.Term
	n int
}

func (r *rxRun) runeAt(pos int) (*smt.Term, int) {
	if v, ok := r.runes[pos]; ok {
		return v.r, v.n
	}
	t, n := r.ex.decodeRuneAt(r.b, pos)
	r.runes[pos] = rxRune{t, n}
	return t, n
}

// inClass: rune term t matches instruction i (as syntax.Inst.MatchRune).
func (r *rxRun) inClass(i *syntax.Inst, t *smt.Term) *smt.Term {
	c := func(v rune) *smt.Term { return smt.BVC(32, uint64(uint32(v))) }
	switch i.Op {
	case syntax.InstRuneAny:
		return smt.True
	case syntax.InstRuneAnyNotNL:
		return smt.Not(smt.Eq(t, c('\n')))
	}
	rs := i.Rune
	if len(rs) == 1 {
		res := smt.Eq(t, c(rs[0]))
		if syntax.Flags(i.Arg)&syntax.FoldCase != 0 {
			for r1 := unicode.SimpleFold(rs[0]); r1 != rs[0]; r1 = unicode.SimpleFold(r1) {
				res = smt.Or(res, smt.Eq(t, c(r1)))
			}
		}
		return res
	}
	res := smt.False
	for k := 0; k+1 < len(rs); k += 2 {
		lo, hi := rs[k], rs[k+1]
		var in *smt.Term
		if lo == hi {
			in = smt.Eq(t, c(lo))
		} else {
			in = smt.And(smt.SLe(c(lo), t), smt.SLe(t, c(hi)))
		}
		res = smt.Or(res, in)
	}
	return res
}

func (r *rxRun) isWordAt(pos int) *smt.Term {
	if pos < 0 || pos >= len(r.b) {
		return smt.False
	}
	b := r.b[pos]
	c := func(v byte) *smt.Term { return smt.BVC(8, uint64(v)) }
	in := func(lo, hi byte) *smt.Term { return smt.And(smt.ULe(c(lo), b), smt.ULe(b, c(hi))) }
	return smt.Or(smt.Or(in('a', 'z'), in('A', 'Z')), smt.Or(in('0', '9'), smt.Eq(b, c('_'))))
}

func (r *rxRun) emptyOK(op syntax.EmptyOp, pos int) bool {
	nl := smt.BVC(8, '\n')
	if op&syntax.EmptyBeginText != 0 && pos != 0 {
		return false
	}
	if op&syntax.EmptyEndText != 0 && pos != len(r.b) {
		return false
	}
	if op&syntax.EmptyBeginLine != 0 && pos != 0 {
		if !r.ex.P.branch(smt.Eq(r.b[pos-1], nl)) {
			return false
		}
	}
	if op&syntax.EmptyEndLine != 0 && pos != len(r.b) {
		if !r.ex.P.branch(smt.Eq(r.b[pos], nl)) {
			return false
		}
	}
	if op&(syntax.EmptyWordBoundary|syntax.EmptyNoWordBoundary) != 0 {
		boundary := smt.Not(smt.Eq(r.isWordAt(pos-1), r.isWordAt(pos)))
		isB := r.ex.P.branch(boundary)
		if op&syntax.EmptyWordBoundary != 0 && !isB {
			return false
		}
		if op&syntax.EmptyNoWordBoundary != 0 && isB {
			return false
		}
	}
	return true
}

func (r *rxRun) match(pc, pos int) bool {
	r.steps++
	if r.steps > 200000 {
		r.ex.abort("regular expression VM step limit")
	}
	key := [2]int{pc, pos}
	if r.failed[key] {
		return false
	}
	i := &r.p.prog.Inst[pc]
	ok := false
	switch i.Op {
	case syntax.InstFail:
	case syntax.InstMatch:
		return true
	case syntax.InstNop:
		ok = r.match(int(i.Out), pos)
	case syntax.InstAlt, syntax.InstAltMatch:
		ok = r.match(int(i.Out), pos) || r.match(int(i.Arg), pos)
	case syntax.InstCapture:
		k := int(i.Arg)
		if k < len(r.caps) {
			old := r.caps[k]
			r.caps[k] = pos
			ok = r.match(int(i.Out), pos)
			if !ok {
				r.caps[k] = old
			}
			return ok // captures make failure context dependent only through restoration; still safe to memo below
		}
		ok = r.match(int(i.Out), pos)
	case syntax.InstEmptyWidth:
		if r.emptyOK(syntax.EmptyOp(i.Arg), pos) {
			ok = r.match(int(i.Out), pos)
		}
	case syntax.InstRune, syntax.InstRune1, syntax.InstRuneAny, syntax.InstRuneAnyNotNL:
		if pos < len(r.b) {
			t, n := r.runeAt(pos)
			if r.ex.P.branch(r.inClass(i, t)) {
				ok = r.match(int(i.Out), pos+n)
			}
		}
	}
	if !ok {
		r.failed[key] = true
	}
	return ok
}

// rxFindSubmatch implements FindStringSubmatch: nil when there is no match.
func (ex *Exec) rxFindSubmatch(p *rxProg, s Value) Value {
	if sv, ok := s.(*SymStr); ok {
		ex.needClear(sv)
	}
	b := strBytes(s)
	anchored := p.prog.StartCond()&syntax.EmptyBeginText != 0
	for start := 0; start <= len(b); start++ {
		r := &rxRun{ex: ex, p: p, b: b, caps: make([]int, 2*(p.ncap+1)), failed: map[[2]int]bool{}, runes: map[int]rxRune{}}
		for k := range r.caps {
			r.caps[k] = -1
		}
		r.caps[0] = start
		if r.matchFrom(start) {
			out := make(Slice, p.ncap+1)
			for g := 0; g <= p.ncap; g++ {
				lo, hi := r.caps[2*g], r.caps[2*g+1]
				if lo < 0 || hi < 0 {
					out[g] = ""
				} else {
					out[g] = mkStr(b[lo:hi])
				}
			}
			return out
		}
		if anchored {
			break
		}
		// advance by one rune
		if start < len(b) {
			_, n := ex.decodeRuneAt(b, start)
			start += n - 1
		}
	}
	return Slice(nil)
}

func (r *rxRun) matchFrom(start int) bool {
	// find the end position: run the program, recording where Match was reached
	end := -1
	var run func(pc, pos int) bool
	_ = run
	// wrap InstMatch to record the position: do a dedicated traversal
	ok := r.matchEnd(r.p.prog.Start, start, &end)
	if ok {
		r.caps[1] = end
	}
	return ok
}

// matchEnd is match() that reports the position at which InstMatch was reached.
func (r *rxRun) matchEnd(pc, pos int, end *int) bool {
	r.steps++
	if r.steps > 200000 {
		r.ex.abort("regular expression VM step limit")
	}
	key := [2]int{pc, pos}
	if r.failed[key] {
		return false
	}
	i := &r.p.prog.Inst[pc]
	ok := false
	switch i.Op {
	case syntax.InstFail:
	case syntax.InstMatch:
		*end = pos
		return true
	case syntax.InstNop:
		ok = r.matchEnd(int(i.Out), pos, end)
	case syntax.InstAlt, syntax.InstAltMatch:
		ok = r.matchEnd(int(i.Out), pos, end) || r.matchEnd(int(i.Arg), pos, end)
	case syntax.InstCapture:
		k := int(i.Arg)
		if k < len(r.caps) {
			old := r.caps[k]
			r.caps[k] = pos
			ok = r.matchEnd(int(i.Out), pos, end)
			if !ok {
				r.caps[k] = old
			}
		} else {
			ok = r.matchEnd(int(i.Out), pos, end)
		}
	case syntax.InstEmptyWidth:
		if r.emptyOK(syntax.EmptyOp(i.Arg), pos) {
			ok = r.matchEnd(int(i.Out), pos, end)
		}
	case syntax.InstRune, syntax.InstRune1, syntax.InstRuneAny, syntax.InstRuneAnyNotNL:
		if pos < len(r.b) {
			t, n := r.runeAt(pos)
			if r.ex.P.branch(r.inClass(i, t)) {
				ok = r.matchEnd(int(i.Out), pos+n, end)
			}
		}
	}
	if !ok {
		r.failed[key] = true
	}
	return ok
}
