package sym

import "math"

func hypot(a, b float64) float64 { return math.Hypot(a, b) }
func atan2(y, x float64) float64 { return math.Atan2(y, x) }
