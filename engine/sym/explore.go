package sym

import (
	"fmt"
	"runtime/debug"
	"sort"
	"strings"
	"sync"
	"time"

	"golang.org/x/tools/go/ssa"

	"verif/engine/smt"
)

type RunConfig struct {
	PkgPath        string // import path of the harness package
	Harness        string // function name
	Params         []int  // concrete int parameters
	MaxSteps       int
	MaxDepth       int
	MaxMake        int
	MaxPaths       int
	Workers        int
	SolverBin      string
	TimeoutMs      int
	Known          []KnownClass
	MapOrderMax    int
	MapOrderSticky bool
	SchedChoice    bool
	MaxSchedPoints int
	Deadline       time.Time
	AccessLog      bool
	Trace          bool
	UsePool        bool // take solvers from the global pool (one per path) instead of one per worker
	TraceThread    int  // trace mode: explore the event tree of this thread (0 = main)
	TraceOn        bool
	MaxEvents      int
}

var pools = map[string]chan *smt.Solver{}
var poolAll []*smt.Solver
var poolMu sync.Mutex
var poolN, poolTimeout = 16, 30000

// InitPool sets the size of the per-solver pools shared by all concurrently
// running harness instances; the processes are started on first use.
func InitPool(n int, bin string, timeoutMs int) error {
	poolN, poolTimeout = n, timeoutMs
	_, err := getPool(bin)
	return err
}

func getPool(bin string) (chan *smt.Solver, error) {
	poolMu.Lock()
	defer poolMu.Unlock()
	if p, ok := pools[bin]; ok {
		return p, nil
	}
	p := make(chan *smt.Solver, poolN)
	for i := 0; i < poolN; i++ {
		s, err := smt.Start(bin, poolTimeout)
		if err != nil {
			return nil, err
		}
		poolAll = append(poolAll, s)
		p <- s
	}
	pools[bin] = p
	return p, nil
}

func ClosePool() {
	for _, s := range poolAll {
		s.Close()
	}
	poolAll = nil
	pools = map[string]chan *smt.Solver{}
}

// PoolStats returns total queries and solver time of the pool.
func PoolStats() (int, time.Duration) {
	q, t := 0, time.Duration(0)
	for _, s := range poolAll {
		q += s.Queries
		t += s.Time
	}
	return q, t
}

type PathSample struct {
	Choices []int    `json:"choices"`
	Events  []string `json:"events"`
	Steps   int      `json:"steps"`
}

type RunResult struct {
	Harness     string
	Params      []int
	Paths       int
	Infeasible  int
	Discharged  int
	Trivial     int
	Violations  []Event
	Known       []Event
	Unknown     []Event
	Undecided   []string // BMC search mode: queries without a verdict (nothing claimed for them)
	Aborts      []Event
	Reach       map[string]int
	Observes    []Event
	Funcs       map[string]int
	Stubs       map[string]int
	MaxStepsHit int
	MaxDepthHit int
	Queries     int
	SolverTime  time.Duration
	Wall        time.Duration
	Samples     []PathSample
	UnknownBr   int
	Truncated   bool
	AccessLogs  []*AccessLog
	Retried     string
	Traces      [][]TraceEvent
	TraceMeta   *Tracer
}

func (ex *Exec) init(pr *Program, p *Path, cfg *RunConfig) {
	ex.Pr = pr
	ex.P = p
	ex.globals = map[*ssa.Global]*Value{}
	ex.MaxSteps = cfg.MaxSteps
	ex.baseMaxSteps = cfg.MaxSteps
	ex.MaxDepth = cfg.MaxDepth
	ex.MaxMake = cfg.MaxMake
	ex.MapOrderMax = cfg.MapOrderMax
	ex.MapOrderSticky = cfg.MapOrderSticky
	ex.SchedChoice = cfg.SchedChoice
	ex.MaxSchedPoints = cfg.MaxSchedPoints
	if ex.MaxSchedPoints == 0 {
		ex.MaxSchedPoints = 1 << 30
	}
	ex.mutexes = map[*Value]*mutexSt{}
	ex.builders = map[*Value]*[]*smt.Term{}
	ex.wgs = map[*Value]*int{}
	ex.inited = map[*ssa.Package]bool{}
	ex.initRunning = map[*ssa.Package]bool{}
	ex.Funcs = map[string]int{}
	ex.Stubs = map[string]int{}
	ex.rx = map[*Value]*rxProg{}
	if cfg.AccessLog {
		ex.accessLog = &AccessLog{}
	}
	ex.initSched()
	if cfg.TraceOn {
		me := cfg.MaxEvents
		if me == 0 {
			me = 200
		}
		ex.tr = newTracer(cfg.TraceThread, me)
		p.onDecide = func(t *smt.Term) {
			if ex.tr.recording && !t.IsConst() {
				ex.tr.pre = append(ex.tr.pre, t)
			}
		}
	}
}

// runPath executes the harness once along the given decision prefix.
func runPath(pr *Program, fn *ssa.Function, s *smt.Solver, prefix []int, cfg *RunConfig) (p *Path, ex *Exec, endReason string) {
	p = newPath(s, prefix, cfg.Known)
	ex = &Exec{}
	ex.init(pr, p, cfg)
	defer p.close()
	defer ex.killAll()

	safeFail := func(label, detail string) {
		defer func() {
			if r := recover(); r != nil {
				if _, ok := r.(pathEnd); !ok {
					panic(r)
				}
			}
		}()
		p.failHere(label, detail)
	}

	func() {
		defer func() {
			r := recover()
			if r == nil {
				endReason = "return"
				return
			}
			switch r := r.(type) {
			case pathEnd:
				endReason = r.reason
				switch r.reason {
				case "budget":
					safeFail("nonterm", fmt.Sprintf("step budget %d exhausted", ex.MaxSteps))
				case "depth":
					safeFail("nonterm", fmt.Sprintf("call depth %d exceeded", ex.MaxDepth))
				}
			case abortPath:
				endReason = "abort"
				p.event(Event{Kind: EvAbort, Label: "unsupported", Detail: r.reason})
			case *goPanic:
				if ex.tr != nil && ex.tr.recording {
					ex.tr.emit(ex, TraceEvent{Kind: "panic", Text: r.Msg})
					endReason = "trace-done"
					break
				}
				endReason = "uncaught-panic"
				safeFail("uncaught-panic", r.Msg)
			default:
				endReason = "engine-bug"
				p.event(Event{Kind: EvAbort, Label: "engine-bug", Detail: fmt.Sprintf("%v\n  at %s\n%s", r, ex.where(), trimStack(debug.Stack()))})
			}
		}()
		args := make([]Value, len(fn.Params))
		for i := range args {
			v := 0
			if i < len(cfg.Params) {
				v = cfg.Params[i]
			}
			args[i] = smt.BVC(64, uint64(int64(v)))
		}
		ex.call(nil, fn, args)
		if ex.tr != nil && ex.tr.recording {
			ex.tr.emit(ex, TraceEvent{Kind: "done"})
		}
		if ex.fatalEnd != nil {
			panic(ex.fatalEnd)
		}
	}()
	return
}

// Run explores every path of one harness instance.
func (pr *Program) Run(cfg RunConfig) *RunResult {
	t0 := time.Now()
	res := &RunResult{Harness: cfg.Harness, Params: cfg.Params, Reach: map[string]int{}, Funcs: map[string]int{}, Stubs: map[string]int{}}
	fn := pr.LookupFunc(cfg.PkgPath, cfg.Harness)
	if fn == nil {
		res.Aborts = append(res.Aborts, Event{Kind: EvAbort, Label: "no-harness", Detail: cfg.PkgPath + "." + cfg.Harness + " not found (harness did not build against the current tree?)"})
		return res
	}
	if cfg.Workers < 1 {
		cfg.Workers = 1
	}

	var mu sync.Mutex
	cond := sync.NewCond(&mu)
	queue := [][]int{nil}
	active := 0
	stop := false

	worker := func() {
		var s *smt.Solver
		if !cfg.UsePool {
			var err error
			s, err = smt.Start(cfg.SolverBin, cfg.TimeoutMs)
			if err != nil {
				mu.Lock()
				res.Aborts = append(res.Aborts, Event{Kind: EvAbort, Label: "solver", Detail: err.Error()})
				stop = true
				cond.Broadcast()
				mu.Unlock()
				return
			}
			defer s.Close()
		}
		for {
			mu.Lock()
			for len(queue) == 0 && active > 0 && !stop {
				cond.Wait()
			}
			if stop || (len(queue) == 0 && active == 0) {
				cond.Broadcast()
				mu.Unlock()
				break
			}
			prefix := queue[len(queue)-1]
			queue = queue[:len(queue)-1]
			active++
			mu.Unlock()

			ps := s
			var q0 int
			var t0s time.Duration
			var pool chan *smt.Solver
			if cfg.UsePool {
				bin := cfg.SolverBin
				if bin == "" {
					bin = "z3"
				}
				var err error
				pool, err = getPool(bin)
				if err != nil {
					mu.Lock()
					res.Aborts = append(res.Aborts, Event{Kind: EvAbort, Label: "solver", Detail: err.Error()})
					stop = true
					active--
					cond.Broadcast()
					mu.Unlock()
					return
				}
				ps = <-pool
				q0, t0s = ps.Queries, ps.Time
			}
			p, ex, reason := runPath(pr, fn, ps, prefix, &cfg)
			if cfg.UsePool {
				dq, dt := ps.Queries-q0, ps.Time-t0s
				pool <- ps
				mu.Lock()
				res.Queries += dq
				res.SolverTime += dt
				mu.Unlock()
			}

			mu.Lock()
			active--
			res.Paths++
			if reason == "infeasible" || reason == "assume-false" || reason == "stale-prefix" {
				res.Infeasible++
			}
			queue = append(queue, p.forks...)
			var evs []string
			for _, e := range p.Events {
				switch e.Kind {
				case EvDischarged:
					res.Discharged++
				case EvTrivial:
					res.Trivial++
				case EvViolation:
					e.Choices = append([]int(nil), p.taken...)
					res.Violations = append(res.Violations, e)
				case EvKnown:
					res.Known = append(res.Known, e)
				case EvUnknown:
					res.Unknown = append(res.Unknown, e)
				case EvAbort:
					res.Aborts = append(res.Aborts, e)
				case EvReach:
					res.Reach[e.Label]++
				case EvObserve:
					res.Observes = append(res.Observes, e)
				}
				if e.Kind != EvObserve {
					evs = append(evs, e.Kind+":"+e.Label)
				}
			}
			for k, v := range ex.Funcs {
				res.Funcs[k] += v
			}
			for k, v := range ex.Stubs {
				res.Stubs[k] += v
			}
			if ex.Steps > res.MaxStepsHit {
				res.MaxStepsHit = ex.Steps
			}
			if ex.depthHigh > res.MaxDepthHit {
				res.MaxDepthHit = ex.depthHigh
			}
			res.UnknownBr += p.unknownBranches
			if len(res.Samples) < 3 {
				res.Samples = append(res.Samples, PathSample{Choices: append([]int(nil), p.taken...), Events: evs, Steps: ex.Steps})
			}
			if ex.accessLog != nil {
				res.AccessLogs = append(res.AccessLogs, ex.accessLog)
			}
			if ex.tr != nil && (reason == "trace-done" || reason == "return") && len(ex.tr.events) > 0 {
				res.Traces = append(res.Traces, ex.tr.events)
				if res.TraceMeta == nil {
					res.TraceMeta = ex.tr
				}
			}
			if cfg.MaxPaths > 0 && res.Paths >= cfg.MaxPaths && len(queue) > 0 {
				res.Truncated = true
				stop = true
			}
			if !cfg.Deadline.IsZero() && time.Now().After(cfg.Deadline) && len(queue) > 0 {
				res.Truncated = true
				stop = true
			}
			if len(res.Violations) >= 3 {
				stop = true // enough counterexamples for one harness instance
			}
			cond.Broadcast()
			mu.Unlock()
		}
		if s != nil {
			mu.Lock()
			res.Queries += s.Queries
			res.SolverTime += s.Time
			mu.Unlock()
		}
	}
	var wg sync.WaitGroup
	for i := 0; i < cfg.Workers; i++ {
		wg.Add(1)
		go func() { defer wg.Done(); worker() }()
	}
	wg.Wait()
	res.Wall = time.Since(t0)
	return res
}

func (r *RunResult) Summary() string {
	var reach []string
	for k, v := range r.Reach {
		reach = append(reach, fmt.Sprintf("%s=%d", k, v))
	}
	sort.Strings(reach)
	return fmt.Sprintf("%s%v: paths=%d infeasible=%d discharged=%d trivial=%d violations=%d known=%d unknown=%d aborts=%d reach[%s] steps<=%d queries=%d solver=%.2fs wall=%.2fs",
		r.Harness, r.Params, r.Paths, r.Infeasible, r.Discharged, r.Trivial, len(r.Violations), len(r.Known), len(r.Unknown), len(r.Aborts),
		strings.Join(reach, ","), r.MaxStepsHit, r.Queries, r.SolverTime.Seconds(), r.Wall.Seconds())
}

func trimStack(b []byte) string {
	lines := strings.Split(string(b), "\n")
	var out []string
	for _, l := range lines {
		if strings.Contains(l, "runFrame.func1") || strings.Contains(l, "panic.go") || strings.Contains(l, "exec.go:4") {
			continue
		}
		out = append(out, l)
		if len(out) > 24 {
			break
		}
	}
	return strings.Join(out, "\n")
}

func (ex *Exec) where() string {
	var names []string
	for i := len(ex.callStack) - 1; i >= 0 && len(names) < 8; i-- {
		names = append(names, ex.callStack[i].String())
	}
	in := ""
	if ex.lastInstr != nil {
		in = fmt.Sprintf("%v @ %v", ex.lastInstr, ex.Pr.Prog.Fset.Position(ex.lastInstr.Pos()))
	}
	return in + " in " + strings.Join(names, " <- ")
}
