package sym

import (
	"fmt"
	"go/types"

	"verif/engine/smt"
)

// G is an interpreted goroutine.  Exactly one G runs at a time (baton passing);
// the canonical schedule runs a goroutine until it blocks or finishes and then
// resumes the lowest-numbered runnable one.
type G struct {
	id      int
	wake    chan struct{}
	exited  chan struct{}
	done    bool
	canRun  func() bool
	what    string
	held    []*Value // mutexes held (lockset)
	rheld   []*Value // RWMutexes held for reading (protect reads only)
	harness bool     // started by vf.Go
}

type mutexSt struct {
	locked  bool
	owner   *G
	readers int // sync.RWMutex: number of read locks held
}

func (ex *Exec) initSched() {
	g := &G{id: 0, wake: make(chan struct{}, 1)}
	ex.gs = []*G{g}
	ex.cur = g
}

func (g *G) runnable() bool {
	return !g.done && (g.canRun == nil || g.canRun())
}

func (ex *Exec) pick(exclude *G) *G {
	for _, g := range ex.gs {
		if g != exclude && g.runnable() {
			return g
		}
	}
	return nil
}

// fatal is set by a non-main goroutine (uncaught panic) or by deadlock detection;
// the main goroutine reports it when it next runs.
type fatalInfo struct {
	label, detail string
}

var _ = fmt.Sprint

func (ex *Exec) switchTo(from, next *G) {
	ex.cur = next
	next.wake <- struct{}{}
	<-from.wake
	ex.cur = from
	if ex.aborted {
		panic(pathEnd{"aborted"})
	}
	if from.id == 0 && ex.fatalEnd != nil {
		panic(ex.fatalEnd)
	}
	if from.id == 0 && ex.fatalEv != nil {
		f := ex.fatalEv
		ex.fatalEv = nil
		ex.P.failHere(f.label, f.detail)
		panic(pathEnd{"fatal-known"}) // the failure was a listed known finding: nothing more to explore here
	}
}

// yieldPoint is called before every synchronisation operation.  With SchedChoice
// it is a choice point over the runnable goroutines, so that all interleavings at
// the granularity of synchronisation operations are explored.
func (ex *Exec) yieldPoint() {
	if !ex.SchedChoice || ex.inYield {
		return
	}
	g := ex.cur
	var run []*G
	for _, o := range ex.gs {
		if o == g || o.runnable() {
			run = append(run, o)
		}
	}
	if len(run) < 2 {
		return
	}
	ex.schedPoints++
	if ex.schedPoints > ex.MaxSchedPoints {
		return // beyond the bound: continue with the canonical schedule
	}
	k := ex.chooseFree(len(run))
	if run[k] != g {
		ex.inYield = true
		ex.switchTo(g, run[k])
		ex.inYield = false
	}
}

// block parks the current goroutine until cond holds.
func (ex *Exec) block(cond func() bool, what string) {
	g := ex.cur
	for !cond() {
		g.canRun = cond
		g.what = what
		next := ex.pick(g)
		if next == nil {
			// nobody can run: deadlock
			desc := ex.describeBlocked()
			if g.id == 0 {
				g.canRun = nil
				ex.P.failHere("deadlock", desc)
				panic(pathEnd{"deadlock-known"})
			}
			ex.fatalEv = &fatalInfo{"deadlock", desc}
			main := ex.gs[0]
			main.canRun = nil
			next = main
		}
		ex.switchTo(g, next)
	}
	g.canRun = nil
}

func (ex *Exec) describeBlocked() string {
	s := ""
	for _, g := range ex.gs {
		if !g.done {
			s += fmt.Sprintf("g%d blocked on %s; ", g.id, g.what)
		}
	}
	return s
}

// quiesce lets every other goroutine run until all are blocked or finished and
// returns the number left unfinished.
func (ex *Exec) quiesce() int {
	g := ex.cur
	for {
		next := ex.pick(g)
		if next == nil {
			break
		}
		ex.switchTo(g, next)
	}
	n := 0
	for _, o := range ex.gs {
		if o != g && !o.done {
			n++
		}
	}
	return n
}

func (ex *Exec) spawn(fr *frame, fn Value, args []Value) {
	if ex.tr != nil {
		ex.trSpawn(fn, args)
		return
	}
	g := &G{id: len(ex.gs), wake: make(chan struct{}, 1), exited: make(chan struct{}), harness: ex.spawningHarness}
	ex.gs = append(ex.gs, g)
	go func() {
		defer close(g.exited)
		<-g.wake
		if ex.aborted {
			return
		}
		ex.cur = g
		func() {
			defer func() {
				r := recover()
				if r == nil {
					return
				}
				switch r := r.(type) {
				case *goPanic:
					if ex.fatalEv == nil {
						ex.fatalEv = &fatalInfo{"goroutine-panic", r.Msg}
					}
				case pathEnd:
					if r.reason != "aborted" && ex.fatalEnd == nil {
						ex.fatalEnd = r
					}
				default:
					if ex.fatalEnd == nil {
						ex.fatalEnd = r
					}
				}
			}()
			if m, ok := fn.(*rtypeMethod); ok {
				_ = m
				ex.abort("go of reflect.Type method")
			}
			ex.call(nil, fn, args)
		}()
		g.done = true
		if ex.aborted {
			return
		}
		// hand the baton on
		var next *G
		if ex.fatalEv != nil || ex.fatalEnd != nil {
			next = ex.gs[0]
			next.canRun = nil
		} else {
			next = ex.pick(g)
		}
		if next == nil {
			// everybody else is blocked: deadlock, reported by main
			ex.fatalEv = &fatalInfo{"deadlock", ex.describeBlocked()}
			next = ex.gs[0]
			next.canRun = nil
		}
		ex.cur = next
		next.wake <- struct{}{}
	}()
}

// killAll terminates every unfinished goroutine at the end of a path.
func (ex *Exec) killAll() {
	ex.aborted = true
	for _, g := range ex.gs[1:] {
		select {
		case <-g.exited:
			continue
		default:
		}
		select {
		case g.wake <- struct{}{}:
		default:
		}
		<-g.exited
	}
}

// ---- channels ----

func (ex *Exec) chanSend(fr *frame, c *Chan, v Value) {
	if ex.tr != nil && ex.trOn() {
		ex.trSend(c)
		return
	}
	ex.yieldPoint()
	if c == nil {
		ex.block(func() bool { return false }, "send on nil channel")
	}
	if c.Cap == 0 {
		// unbuffered: the value is handed to a receiver that is already waiting (the sender does not wait for
		// the hand-over to complete - the receiver is committed, so this only drops a happens-before edge)
		ex.block(func() bool { return c.Closed || c.recvWaiting > len(c.Buf) }, fmt.Sprintf("send on unbuffered channel #%d with no receiver", c.id))
	} else {
		ex.block(func() bool { return c.Closed || len(c.Buf) < c.Cap }, fmt.Sprintf("send on full channel #%d", c.id))
	}
	if c.Closed {
		panic(&goPanic{V: Iface{T: types.Typ[types.String], V: "send on closed channel"}, Runtime: true, Msg: "send on closed channel"})
	}
	c.Buf = append(c.Buf, copyVal(v))
}

func (ex *Exec) chanRecv(fr *frame, c *Chan, commaOk bool, elem types.Type) Value {
	if ex.tr != nil && ex.trOn() {
		return ex.trRecv(c, commaOk, elem)
	}
	ex.yieldPoint()
	if c == nil {
		ex.block(func() bool { return false }, "receive on nil channel")
	}
	c.recvWaiting++
	ex.block(func() bool { return c.Closed || len(c.Buf) > 0 }, fmt.Sprintf("receive on empty channel #%d", c.id))
	c.recvWaiting--
	var v Value
	ok := false
	if len(c.Buf) > 0 {
		v = c.Buf[0]
		c.Buf = c.Buf[1:]
		ok = true
	} else {
		v = zero(elem)
	}
	if commaOk {
		return Tuple{v, smt.BoolC(ok)}
	}
	return v
}

func (ex *Exec) chanClose(c *Chan) {
	if ex.tr != nil && ex.trOn() {
		ex.tr.emit(ex, TraceEvent{Kind: "close", Obj: ex.trChanRef(c)})
		return
	}
	ex.yieldPoint()
	if c == nil {
		panic(&goPanic{V: Iface{T: types.Typ[types.String], V: "close of nil channel"}, Runtime: true, Msg: "close of nil channel"})
	}
	if c.Closed {
		panic(&goPanic{V: Iface{T: types.Typ[types.String], V: "close of closed channel"}, Runtime: true, Msg: "close of closed channel"})
	}
	c.Closed = true
}

// ---- sync ----

func (ex *Exec) mutexOf(p *Value) *mutexSt {
	st := ex.mutexes[p]
	if st == nil {
		st = &mutexSt{}
		ex.mutexes[p] = st
	}
	return st
}

func (ex *Exec) mutexLock(p *Value) {
	if p == nil {
		ex.rtPanic("invalid memory address or nil pointer dereference")
	}
	if ex.tr != nil && ex.trOn() && ex.trLock(p) {
		return
	}
	ex.yieldPoint()
	st := ex.mutexOf(p)
	ex.block(func() bool { return !st.locked }, "mutex")
	st.locked = true
	st.owner = ex.cur
	ex.cur.held = append(ex.cur.held, p)
}

func (ex *Exec) mutexUnlock(p *Value) {
	if p == nil {
		ex.rtPanic("invalid memory address or nil pointer dereference")
	}
	if ex.tr != nil && ex.trOn() && ex.trUnlock(p) {
		return
	}
	st := ex.mutexOf(p)
	if !st.locked {
		panic(&goPanic{V: Iface{T: types.Typ[types.String], V: "fatal error: sync: unlock of unlocked mutex"}, Runtime: true, Msg: "fatal error: sync: unlock of unlocked mutex"})
	}
	st.locked = false
	if st.owner != nil {
		h := st.owner.held
		for i := len(h) - 1; i >= 0; i-- {
			if h[i] == p {
				st.owner.held = append(h[:i:i], h[i+1:]...)
				break
			}
		}
	}
	st.owner = nil
}

func (ex *Exec) wgCounter(p *Value) *int {
	c := ex.wgs[p]
	if c == nil {
		c = new(int)
		ex.wgs[p] = c
	}
	return c
}

// ---- sync.RWMutex: writers exclude everybody, readers exclude writers ----

func (ex *Exec) rwLock(p *Value) {
	if p == nil {
		ex.rtPanic("invalid memory address or nil pointer dereference")
	}
	if ex.tr != nil && ex.trOn() && ex.trLock(p) {
		return
	}
	ex.yieldPoint()
	st := ex.mutexOf(p)
	ex.block(func() bool { return !st.locked && st.readers == 0 }, "rwmutex (write)")
	st.locked = true
	st.owner = ex.cur
	ex.cur.held = append(ex.cur.held, p)
}

func (ex *Exec) rwRLock(p *Value) {
	if p == nil {
		ex.rtPanic("invalid memory address or nil pointer dereference")
	}
	if ex.tr != nil && ex.trOn() && ex.trRLock(p) {
		return
	}
	ex.yieldPoint()
	st := ex.mutexOf(p)
	ex.block(func() bool { return !st.locked }, "rwmutex (read)")
	st.readers++
	ex.cur.rheld = append(ex.cur.rheld, p)
}

func (ex *Exec) rwRUnlock(p *Value) {
	if p == nil {
		ex.rtPanic("invalid memory address or nil pointer dereference")
	}
	if ex.tr != nil && ex.trOn() && ex.trRUnlock(p) {
		return
	}
	st := ex.mutexOf(p)
	if st.readers == 0 {
		panic(&goPanic{V: Iface{T: types.Typ[types.String], V: "fatal error: sync: RUnlock of unlocked RWMutex"}, Runtime: true, Msg: "fatal error: sync: RUnlock of unlocked RWMutex"})
	}
	st.readers--
	h := ex.cur.rheld
	for i := len(h) - 1; i >= 0; i-- {
		if h[i] == p {
			ex.cur.rheld = append(h[:i:i], h[i+1:]...)
			break
		}
	}
}
