package sym

import (
	"fmt"
	"sort"
	"strings"
	"time"

	"verif/engine/smt"
)

// Event kinds recorded while executing one path.
const (
	EvDischarged = "discharged" // assertion proved on this path (solver unsat)
	EvTrivial    = "trivial"    // assertion was concretely true
	EvViolation  = "violation"  // assertion refuted; Model holds the counterexample
	EvKnown      = "known"      // refuted only inside a known-finding class
	EvUnknown    = "unknown"    // solver gave no verdict
	EvReach      = "reach"
	EvAbort      = "abort" // unsupported construct / engine limitation
	EvObserve    = "observe"
)

type Event struct {
	Kind    string                       `json:"kind"`
	Label   string                       `json:"label"`
	Detail  string                       `json:"detail,omitempty"`
	Model   map[string]uint64            `json:"model,omitempty"`
	UF      map[string]map[string]uint64 `json:"uf,omitempty"`
	Choices []int                        `json:"choices,omitempty"`
}

// KnownClass names a classifier predicate (declared in the harness with
// vf.Class) under which a violation of Label is a listed known finding.
type KnownClass struct {
	Label string
	Class string
	Text  string
}

type pathEnd struct{ reason string }

// Path is the solver-facing state of one execution path.
type Path struct {
	S       *smt.Solver
	P       *smt.Printer
	prefix  []int
	taken   []int
	arity   []int
	forks   [][]int
	Events  []Event
	inputs  []*smt.Term
	inNames map[string]*smt.Term
	ufApps  []*smt.Term
	classes map[string]*smt.Term
	known   []KnownClass
	nChoice int
	pcSize  int
	pcText  []string // sample of asserted conditions (for evidence)

	unknownBranches int
	Checks          int
	decided         map[[2]uint64]bool // conditions already fixed on this path
	ufs             map[string][]*ufApp
	onDecide        func(*smt.Term) // trace mode: called with every condition fixed on the path
}

// ufApp is one application of an uninterpreted function, Ackermannized: the
// result is a fresh variable and congruence with every earlier application of
// the same function is asserted explicitly (keeps the queries in pure QF_BV,
// which all three solvers decide quickly; UF+BV combination stalls z3 4.8).
type ufApp struct {
	args []*smt.Term
	res  *smt.Term
	key  string
}

func (p *Path) ufApply(name string, w int, args ...*smt.Term) *smt.Term {
	if p.ufs == nil {
		p.ufs = map[string][]*ufApp{}
	}
	key := ""
	for _, a := range args {
		k := a.Key()
		key += fmt.Sprintf("%x.%x,", k[0], k[1])
	}
	for _, a := range p.ufs[name] {
		if a.key == key {
			return a.res
		}
	}
	res := smt.Var(fmt.Sprintf("%s!%d", name, len(p.ufs[name])), smt.BV(w))
	p.ref(res)
	app := &ufApp{args: args, res: res, key: key}
	for _, o := range p.ufs[name] {
		same := smt.True
		for i := range args {
			same = smt.And(same, smt.Eq(args[i], o.args[i]))
		}
		p.assert(smt.Implies(same, smt.Eq(res, o.res)))
	}
	p.ufs[name] = append(p.ufs[name], app)
	return res
}

func newPath(s *smt.Solver, prefix []int, known []KnownClass) *Path {
	p := &Path{S: s, P: smt.NewPrinter(), prefix: prefix, inNames: map[string]*smt.Term{}, classes: map[string]*smt.Term{}, known: known, decided: map[[2]uint64]bool{}}
	s.Send("(push 1)\n")
	return p
}

func (p *Path) close() {
	p.S.Send("(pop 1)\n")
}

func (p *Path) ref(t *smt.Term) string {
	r := p.P.Ref(t)
	p.S.Send(p.P.Flush())
	return r
}

func (p *Path) assert(t *smt.Term) {
	if t.IsConst() {
		if t.C == 0 {
			panic(pathEnd{"infeasible"})
		}
		return
	}
	r := p.ref(t)
	p.S.Send("(assert " + r + ")\n")
	p.pcSize++
}

func (p *Path) checkWith(ts ...*smt.Term) smt.Result {
	var refs []string
	for _, t := range ts {
		if t.IsConst() {
			if t.C == 0 {
				return smt.Unsat
			}
			continue
		}
		refs = append(refs, p.ref(t))
	}
	p.S.Send("(push 1)\n")
	for _, r := range refs {
		p.S.Send("(assert " + r + ")\n")
	}
	p.Checks++
	var res smt.Result
	if pastDeadline() {
		res = smt.Unknown // the wall-clock budget of the run is used up: no further solver time
		p.S.LastErr = "wall-clock budget of the check used up"
	} else {
		res = p.S.Check()
	}
	p.S.Send("(pop 1)\n")
	return res
}

// RunDeadline: past this instant no path asks the solver any more (every query answers unknown).
var RunDeadline time.Time

func pastDeadline() bool { return !RunDeadline.IsZero() && time.Now().After(RunDeadline) }

// modelWith is checkWith that also returns a model when sat.
func (p *Path) modelWith(ts ...*smt.Term) (smt.Result, map[string]uint64, map[string]map[string]uint64) {
	var refs []string
	for _, t := range ts {
		if t.IsConst() {
			if t.C == 0 {
				return smt.Unsat, nil, nil
			}
			continue
		}
		refs = append(refs, p.ref(t))
	}
	// make sure UF applications are named before the push
	type ufq struct {
		name string
		ref  string
		args []string
	}
	var ufs []ufq
	for name, apps := range p.ufs {
		for _, a := range apps {
			q := ufq{name: name, ref: p.ref(a.res)}
			for _, x := range a.args {
				if x.IsConst() {
					q.args = append(q.args, fmt.Sprintf("=%d", x.C))
				} else {
					q.args = append(q.args, p.ref(x))
				}
			}
			ufs = append(ufs, q)
		}
	}
	p.S.Send("(push 1)\n")
	for _, r := range refs {
		p.S.Send("(assert " + r + ")\n")
	}
	p.Checks++
	res := smt.Unknown
	if !pastDeadline() {
		res = p.S.Check()
	}
	var model map[string]uint64
	var uf map[string]map[string]uint64
	if res == smt.Sat {
		var names []string
		var qrefs []string
		for _, in := range p.inputs {
			names = append(names, in.Name)
			qrefs = append(qrefs, p.P.Ref(in))
		}
		for _, q := range ufs {
			qrefs = append(qrefs, q.ref)
			for _, a := range q.args {
				if a[0] != '=' {
					qrefs = append(qrefs, a)
				}
			}
		}
		qrefs = dedup(qrefs)
		vals, err := p.S.GetValues(qrefs)
		if err == nil {
			model = map[string]uint64{}
			for i, in := range p.inputs {
				model[names[i]] = vals[p.P.Ref(in)]
			}
			uf = map[string]map[string]uint64{}
			for _, q := range ufs {
				var key []string
				for _, a := range q.args {
					if a[0] == '=' {
						key = append(key, a[1:])
					} else {
						key = append(key, fmt.Sprint(vals[a]))
					}
				}
				if uf[q.name] == nil {
					uf[q.name] = map[string]uint64{}
				}
				uf[q.name][strings.Join(key, ",")] = vals[q.ref]
			}
		} else {
			res = smt.Unknown
		}
	}
	p.S.Send("(pop 1)\n")
	return res, model, uf
}

func dedup(xs []string) []string {
	seen := map[string]bool{}
	var out []string
	for _, x := range xs {
		if !seen[x] {
			seen[x] = true
			out = append(out, x)
		}
	}
	return out
}

// choose is the single choice-point primitive.  conds are mutually exclusive
// and exhaustive under the path condition.
func (p *Path) choose(conds []*smt.Term) int {
	pos := len(p.taken)
	var k int
	if pos < len(p.prefix) {
		k = p.prefix[pos]
		if k >= len(conds) {
			panic(pathEnd{"stale-prefix"})
		}
	} else {
		var feas []int
		for i, c := range conds {
			if c.IsConst() {
				if c.C == 1 {
					feas = append(feas, i)
				}
				continue
			}
			if i == len(conds)-1 && len(feas) == 0 {
				feas = append(feas, i) // the path condition is satisfiable, so one alternative must be
				break
			}
			switch p.checkWith(c) {
			case smt.Sat:
				feas = append(feas, i)
			case smt.Unknown:
				p.unknownBranches++
				feas = append(feas, i)
			}
		}
		if len(feas) == 0 {
			panic(pathEnd{"infeasible"})
		}
		k = feas[0]
		for _, j := range feas[1:] {
			f := make([]int, pos+1)
			copy(f, p.taken)
			f[pos] = j
			p.forks = append(p.forks, f)
		}
	}
	p.taken = append(p.taken, k)
	p.arity = append(p.arity, len(conds))
	if p.onDecide != nil {
		p.onDecide(conds[k])
	}
	p.assert(conds[k])
	return k
}

// branch decides a boolean condition, forking when both outcomes are feasible.
func (p *Path) branch(c *smt.Term) bool {
	if c.IsConst() {
		return c.C == 1
	}
	k := c.Key()
	if v, ok := p.decided[k]; ok {
		return v
	}
	r := p.choose([]*smt.Term{c, smt.Not(c)}) == 0
	p.decided[k] = r
	p.decided[smt.Not(c).Key()] = !r
	return r
}

// newInput declares a fresh named input variable.
func (p *Path) newInput(name string, s smt.Sort) *smt.Term {
	if t, ok := p.inNames[name]; ok {
		// same name requested twice: make it unique
		name = fmt.Sprintf("%s#%d", name, len(p.inputs))
		_ = t
	}
	t := smt.Var(name, s)
	p.inNames[name] = t
	p.inputs = append(p.inputs, t)
	p.ref(t) // declare now so that models can always mention it
	return t
}

func (p *Path) event(e Event) { p.Events = append(p.Events, e) }

// checkAssert discharges one obligation: pc ∧ ¬c must be unsatisfiable.
func (p *Path) checkAssert(label string, c *smt.Term) {
	if c.IsConst() && c.C == 1 {
		p.event(Event{Kind: EvTrivial, Label: label})
		return
	}
	nc := smt.Not(c)
	res, model, uf := p.modelWith(nc)
	switch res {
	case smt.Unsat:
		p.event(Event{Kind: EvDischarged, Label: label})
		return
	case smt.Unknown:
		p.event(Event{Kind: EvUnknown, Label: label, Detail: p.S.LastErr})
		return
	}
	// sat: look past known-finding classes
	var ks []KnownClass
	for _, k := range p.known {
		if k.Label == label || k.Label == "*" {
			if _, ok := p.classes[k.Class]; ok {
				ks = append(ks, k)
			}
		}
	}
	if len(ks) > 0 {
		ts := []*smt.Term{nc}
		for _, k := range ks {
			ts = append(ts, smt.Not(p.classes[k.Class]))
		}
		res2, model2, uf2 := p.modelWith(ts...)
		switch res2 {
		case smt.Unsat:
			for _, k := range ks {
				if p.checkWith(nc, p.classes[k.Class]) == smt.Sat {
					p.event(Event{Kind: EvKnown, Label: label, Detail: k.Class + ": " + k.Text})
				}
			}
			p.assert(c)
			return
		case smt.Unknown:
			p.event(Event{Kind: EvUnknown, Label: label, Detail: "while looking past known findings"})
			p.assert(c)
			return
		}
		model, uf = model2, uf2
	}
	p.event(Event{Kind: EvViolation, Label: label, Model: model, UF: uf, Choices: append([]int(nil), p.taken...)})
	panic(pathEnd{"violation"})
}

// failHere records a violation that holds on the whole current path
// (uncaught panic, exhausted step budget, deadlock).
func (p *Path) failHere(label, detail string) {
	p.checkAssertDetail(label, detail)
}

func (p *Path) checkAssertDetail(label, detail string) {
	defer func() {
		if len(p.Events) > 0 {
			e := &p.Events[len(p.Events)-1]
			if e.Label == label && e.Detail == "" {
				e.Detail = detail
			}
		}
	}()
	p.checkAssert(label, smt.False)
}

// concretize forks over the feasible values lo..hi of t; returns (value, true)
// or (0,false) when t lies outside [lo,hi].
func (p *Path) concretize(t *smt.Term, lo, hi int64, signed bool) (int64, bool) {
	if t.IsConst() {
		var v int64
		if signed {
			v = t.SInt()
		} else {
			if t.C > 1<<62 {
				return 0, false
			}
			v = int64(t.C)
		}
		if v < lo || v > hi {
			return 0, false
		}
		return v, true
	}
	var conds []*smt.Term
	in := smt.True
	for v := lo; v <= hi; v++ {
		c := smt.Eq(t, smt.BVC(t.S.W, uint64(v)))
		conds = append(conds, c)
		in = smt.And(in, smt.Not(c))
	}
	conds = append(conds, in) // "none of them"
	k := p.choose(conds)
	if k == len(conds)-1 {
		return 0, false
	}
	return lo + int64(k), true
}

func sortedKeys(m map[string]uint64) []string {
	var ks []string
	for k := range m {
		ks = append(ks, k)
	}
	sort.Strings(ks)
	return ks
}
