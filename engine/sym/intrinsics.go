package sym

import (
	"fmt"
	"go/types"
	"strconv"
	"strings"
	"unicode/utf8"

	"golang.org/x/tools/go/ssa"

	"verif/engine/smt"
)

type intrinsic func(ex *Exec, caller *frame, fn *ssa.Function, args []Value) Value

var intrinsics map[string]intrinsic

func init() {
	intrinsics = map[string]intrinsic{
		"(*sync.Mutex).Lock":      func(ex *Exec, c *frame, fn *ssa.Function, a []Value) Value { ex.mutexLock(a[0].(*Value)); return nil },
		"(*sync.Mutex).Unlock":    func(ex *Exec, c *frame, fn *ssa.Function, a []Value) Value { ex.mutexUnlock(a[0].(*Value)); return nil },
		"(*sync.RWMutex).Lock":    func(ex *Exec, c *frame, fn *ssa.Function, a []Value) Value { ex.rwLock(a[0].(*Value)); return nil },
		"(*sync.RWMutex).Unlock":  func(ex *Exec, c *frame, fn *ssa.Function, a []Value) Value { ex.mutexUnlock(a[0].(*Value)); return nil },
		"(*sync.RWMutex).RLock":   func(ex *Exec, c *frame, fn *ssa.Function, a []Value) Value { ex.rwRLock(a[0].(*Value)); return nil },
		"(*sync.RWMutex).RUnlock": func(ex *Exec, c *frame, fn *ssa.Function, a []Value) Value { ex.rwRUnlock(a[0].(*Value)); return nil },
		"(*sync.Mutex).TryLock": func(ex *Exec, c *frame, fn *ssa.Function, a []Value) Value {
			st := ex.mutexOf(a[0].(*Value))
			if st.locked {
				return smt.False
			}
			st.locked, st.owner = true, ex.cur
			ex.cur.held = append(ex.cur.held, a[0].(*Value))
			return smt.True
		},
		"(*sync.WaitGroup).Add": func(ex *Exec, c *frame, fn *ssa.Function, a []Value) Value {
			d := a[1].(*smt.Term)
			if !d.IsConst() {
				ex.abort("WaitGroup.Add with symbolic delta")
			}
			if ex.tr != nil && ex.trOn() {
				if id, ok := ex.tr.wgID[a[0].(*Value)]; ok {
					ex.tr.emit(ex, TraceEvent{Kind: "wgadd", Obj: rc(uint64(id)), Args: []*smt.Term{rc(uint64(d.SInt()))}})
					return nil
				}
				ex.abort("WaitGroup that was not shared (vf.ShareWG) is used by traced code")
			}
			cnt := ex.wgCounter(a[0].(*Value))
			*cnt += int(d.SInt())
			if *cnt < 0 {
				panic(&goPanic{V: Iface{T: types.Typ[types.String], V: "sync: negative WaitGroup counter"}, Msg: "sync: negative WaitGroup counter"})
			}
			return nil
		},
		"(*sync.WaitGroup).Done": func(ex *Exec, c *frame, fn *ssa.Function, a []Value) Value {
			if ex.tr != nil && ex.trOn() {
				if id, ok := ex.tr.wgID[a[0].(*Value)]; ok {
					ex.tr.emit(ex, TraceEvent{Kind: "wgdone", Obj: rc(uint64(id))})
					return nil
				}
				ex.abort("WaitGroup that was not shared (vf.ShareWG) is used by traced code")
			}
			cnt := ex.wgCounter(a[0].(*Value))
			*cnt--
			if *cnt < 0 {
				panic(&goPanic{V: Iface{T: types.Typ[types.String], V: "sync: negative WaitGroup counter"}, Msg: "sync: negative WaitGroup counter"})
			}
			return nil
		},
		"(*sync.WaitGroup).Wait": func(ex *Exec, c *frame, fn *ssa.Function, a []Value) Value {
			if ex.tr != nil && ex.trOn() {
				if id, ok := ex.tr.wgID[a[0].(*Value)]; ok {
					ex.tr.emit(ex, TraceEvent{Kind: "wgwait", Obj: rc(uint64(id))})
					return nil
				}
				ex.abort("WaitGroup that was not shared (vf.ShareWG) is used by traced code")
			}
			cnt := ex.wgCounter(a[0].(*Value))
			ex.block(func() bool { return *cnt == 0 }, "WaitGroup.Wait")
			return nil
		},
		"fmt.Sprintf": func(ex *Exec, c *frame, fn *ssa.Function, a []Value) Value {
			return ex.sprintf(a[0], a[1].(Slice))
		},
		"fmt.Sprint": func(ex *Exec, c *frame, fn *ssa.Function, a []Value) Value {
			return &SymStr{Opaque: true, Note: "fmt.Sprint", Segs: []Value{nil}}
		},
		"fmt.Println": func(ex *Exec, c *frame, fn *ssa.Function, a []Value) Value {
			return Tuple{smt.BVC(64, 0), Iface{}}
		},
		"fmt.Printf": func(ex *Exec, c *frame, fn *ssa.Function, a []Value) Value {
			return Tuple{smt.BVC(64, 0), Iface{}}
		},

		// strings: byte-vector intrinsics (their Go bodies end in assembly)
		"internal/bytealg.IndexByteString": func(ex *Exec, c *frame, fn *ssa.Function, a []Value) Value {
			return smt.BVC(64, uint64(int64(ex.indexByte(strBytes(ex.clear(a[0])), a[1].(*smt.Term)))))
		},
		"internal/bytealg.IndexByte": func(ex *Exec, c *frame, fn *ssa.Function, a []Value) Value {
			sl := a[0].(Slice)
			bs := make([]*smt.Term, len(sl))
			for i, v := range sl {
				bs[i] = v.(*smt.Term)
			}
			return smt.BVC(64, uint64(int64(ex.indexByte(bs, a[1].(*smt.Term)))))
		},
		"strings.IndexByte": func(ex *Exec, c *frame, fn *ssa.Function, a []Value) Value {
			return smt.BVC(64, uint64(int64(ex.indexByte(strBytes(ex.clear(a[0])), a[1].(*smt.Term)))))
		},
		"internal/bytealg.CountString": func(ex *Exec, c *frame, fn *ssa.Function, a []Value) Value {
			n := 0
			for _, b := range strBytes(ex.clear(a[0])) {
				if ex.P.branch(smt.Eq(b, a[1].(*smt.Term))) {
					n++
				}
			}
			return smt.BVC(64, uint64(n))
		},
		"strings.HasPrefix": func(ex *Exec, c *frame, fn *ssa.Function, a []Value) Value {
			return ex.strHasPrefix(a[0], a[1])
		},
		"strings.HasSuffix": func(ex *Exec, c *frame, fn *ssa.Function, a []Value) Value {
			s, p := strBytes(ex.clear(a[0])), strBytes(ex.clear(a[1]))
			if len(p) > len(s) {
				return smt.False
			}
			return ex.strEq(mkStr(s[len(s)-len(p):]), a[1])
		},
		"strings.TrimPrefix": func(ex *Exec, c *frame, fn *ssa.Function, a []Value) Value {
			if ex.P.branch(ex.strHasPrefix(a[0], a[1])) {
				return mkStr(strBytes(a[0])[strLen(a[1]):])
			}
			return a[0]
		},
		"strings.Index": func(ex *Exec, c *frame, fn *ssa.Function, a []Value) Value {
			return smt.BVC(64, uint64(int64(ex.strIndex(a[0], a[1]))))
		},
		"strings.Contains": func(ex *Exec, c *frame, fn *ssa.Function, a []Value) Value {
			return smt.BoolC(ex.strIndex(a[0], a[1]) >= 0)
		},
		"strings.Count": func(ex *Exec, c *frame, fn *ssa.Function, a []Value) Value {
			return smt.BVC(64, uint64(ex.strCount(a[0], a[1])))
		},
		"strings.Split": func(ex *Exec, c *frame, fn *ssa.Function, a []Value) Value {
			return ex.strSplit(a[0], a[1])
		},
		"(*strings.Builder).WriteString": func(ex *Exec, c *frame, fn *ssa.Function, a []Value) Value {
			b := ex.builder(a[0].(*Value))
			if isOpaque(a[1]) {
				ex.abort("opaque string written to strings.Builder: %s", a[1].(*SymStr).Note)
			}
			*b = append(*b, strBytes(a[1])...)
			return Tuple{smt.BVC(64, uint64(strLen(a[1]))), Iface{}}
		},
		"(*strings.Builder).WriteByte": func(ex *Exec, c *frame, fn *ssa.Function, a []Value) Value {
			b := ex.builder(a[0].(*Value))
			*b = append(*b, a[1].(*smt.Term))
			return Iface{}
		},
		"(*strings.Builder).WriteRune": func(ex *Exec, c *frame, fn *ssa.Function, a []Value) Value {
			b := ex.builder(a[0].(*Value))
			enc := ex.encodeRune(a[1].(*smt.Term))
			*b = append(*b, enc...)
			return Tuple{smt.BVC(64, uint64(len(enc))), Iface{}}
		},
		"(*strings.Builder).String": func(ex *Exec, c *frame, fn *ssa.Function, a []Value) Value {
			b := ex.builder(a[0].(*Value))
			return mkStr(append([]*smt.Term(nil), (*b)...))
		},
		"(*strings.Builder).Len": func(ex *Exec, c *frame, fn *ssa.Function, a []Value) Value {
			return smt.BVC(64, uint64(len(*ex.builder(a[0].(*Value)))))
		},
		"(*strings.Builder).Reset": func(ex *Exec, c *frame, fn *ssa.Function, a []Value) Value {
			b := ex.builder(a[0].(*Value))
			*b = nil
			return nil
		},
		"(*strings.Builder).Grow": func(ex *Exec, c *frame, fn *ssa.Function, a []Value) Value { return nil },

		// randomness: a fresh value in [0,max) for every draw
		"math/big.NewInt": func(ex *Exec, c *frame, fn *ssa.Function, a []Value) Value {
			var cell Value = a[0]
			return &cell
		},
		"(*math/big.Int).Int64": func(ex *Exec, c *frame, fn *ssa.Function, a []Value) Value {
			return *(a[0].(*Value))
		},
		// wall clock: an arbitrary but fixed instant (nothing in the properties depends on the time)
		"time.now": func(ex *Exec, c *frame, fn *ssa.Function, a []Value) Value {
			ex.clock++
			return Tuple{smt.BVC(64, 1790000000), smt.BVC(32, uint64(ex.clock%1000)), smt.BVC(64, uint64(1000+ex.clock))}
		},
		"time.runtimeNano": func(ex *Exec, c *frame, fn *ssa.Function, a []Value) Value {
			ex.clock++
			return smt.BVC(64, uint64(1000+ex.clock))
		},
		"maps.clone": func(ex *Exec, c *frame, fn *ssa.Function, a []Value) Value {
			// runtime-provided shallow copy behind maps.Clone; the argument arrives as an interface value
			src := a[0]
			if ifc, ok := src.(Iface); ok {
				m, _ := ifc.V.(*Map)
				if m == nil {
					return Iface{T: ifc.T, V: (*Map)(nil)}
				}
				cp := &Map{KeyT: m.KeyT}
				for _, e := range m.Entries {
					cp.Entries = append(cp.Entries, &mapEntry{K: e.K, V: copyVal(e.V)})
				}
				return Iface{T: ifc.T, V: cp}
			}
			ex.abort("maps.clone on %T is not modelled", src)
			return nil
		},
		"strings.Clone":              func(ex *Exec, c *frame, fn *ssa.Function, a []Value) Value { return a[0] },
		"internal/stringslite.Clone": func(ex *Exec, c *frame, fn *ssa.Function, a []Value) Value { return a[0] },
		"crypto/rand.Int": func(ex *Exec, c *frame, fn *ssa.Function, a []Value) Value {
			max := (*(a[1].(*Value))).(*smt.Term)
			if ex.P.branch(smt.SLe(max, smt.BVC(64, 0))) {
				panic(&goPanic{V: Iface{T: types.Typ[types.String], V: "crypto/rand: argument to Int is <= 0"}, Msg: "crypto/rand: argument to Int is <= 0"})
			}
			ex.P.nChoice++
			v := ex.P.newInput(fmt.Sprintf("rand#%d", ex.P.nChoice), smt.BV(64))
			ex.P.assert(smt.And(smt.SLe(smt.BVC(64, 0), v), smt.SLt(v, max)))
			var cell Value = v
			return Tuple{&cell, Iface{}}
		},
		"math/cmplx.Abs": func(ex *Exec, c *frame, fn *ssa.Function, a []Value) Value {
			return ex.cmplxAbs(a[0].(Cplx))
		},
		"math/cmplx.Phase": func(ex *Exec, c *frame, fn *ssa.Function, a []Value) Value {
			return ex.cmplxPhase(a[0].(Cplx))
		},
		"math.Float64bits": func(ex *Exec, c *frame, fn *ssa.Function, a []Value) Value {
			return smt.FPToBits(a[0].(*smt.Term))
		},
		"math.Float64frombits": func(ex *Exec, c *frame, fn *ssa.Function, a []Value) Value {
			return smt.BitsToFP(a[0].(*smt.Term))
		},
		"math.Float32bits": func(ex *Exec, c *frame, fn *ssa.Function, a []Value) Value {
			return smt.FPToBits(a[0].(*smt.Term))
		},
		"math.Float32frombits": func(ex *Exec, c *frame, fn *ssa.Function, a []Value) Value {
			return smt.BitsToFP(a[0].(*smt.Term))
		},
		"math.IsNaN": func(ex *Exec, c *frame, fn *ssa.Function, a []Value) Value {
			return smt.FPIsNaN(a[0].(*smt.Term))
		},
	}
	registerReflect()
	registerRegexp()
}

// indexByte forks over the first position holding byte c.
func (ex *Exec) indexByte(bs []*smt.Term, c *smt.Term) int {
	for i, b := range bs {
		if ex.P.branch(smt.Eq(b, c)) {
			return i
		}
	}
	return -1
}

func (ex *Exec) clear(v Value) Value {
	if s, ok := v.(*SymStr); ok {
		ex.needClear(s)
	}
	return v
}

func (ex *Exec) builder(p *Value) *[]*smt.Term {
	b := ex.builders[p]
	if b == nil {
		b = new([]*smt.Term)
		ex.builders[p] = b
	}
	return b
}

func (ex *Exec) strHasPrefix(s, p Value) *smt.Term {
	if isOpaque(s) && !isOpaque(p) {
		// decide on the known leading segments when they cover the prefix
		var lead []*smt.Term
		for _, seg := range segsOf(s) {
			if seg == nil {
				break
			}
			lead = append(lead, strBytes(seg)...)
		}
		if len(lead) >= strLen(p) {
			return ex.strEq(mkStr(lead[:strLen(p)]), p)
		}
		ex.abort("HasPrefix on a string whose beginning is unknown: %s", s.(*SymStr).Note)
	}
	sb, pb := strBytes(ex.clear(s)), strBytes(ex.clear(p))
	if len(pb) > len(sb) {
		return smt.False
	}
	return ex.strEq(mkStr(sb[:len(pb)]), p)
}

// strIndex forks over the first match position.
func (ex *Exec) strIndex(s, sub Value) int {
	if a, ok := s.(string); ok {
		if b, ok := sub.(string); ok {
			return strings.Index(a, b)
		}
	}
	sb, pb := strBytes(ex.clear(s)), strBytes(ex.clear(sub))
	for i := 0; i+len(pb) <= len(sb); i++ {
		if ex.P.branch(ex.strEq(mkStr(sb[i:i+len(pb)]), sub)) {
			return i
		}
	}
	return -1
}

func (ex *Exec) strCount(s, sub Value) int {
	if a, ok := s.(string); ok {
		if b, ok := sub.(string); ok {
			return strings.Count(a, b)
		}
	}
	sb, pb := strBytes(ex.clear(s)), strBytes(ex.clear(sub))
	if len(pb) == 0 {
		return len(ex.decodeRunes(s)) + 1
	}
	n := 0
	for i := 0; i+len(pb) <= len(sb); {
		if ex.P.branch(ex.strEq(mkStr(sb[i:i+len(pb)]), sub)) {
			n++
			i += len(pb)
		} else {
			i++
		}
	}
	return n
}

func (ex *Exec) strSplit(s, sep Value) Value {
	sb, pb := strBytes(ex.clear(s)), strBytes(ex.clear(sep))
	if len(pb) == 0 {
		ex.abort("strings.Split with empty separator")
	}
	var out Slice
	start := 0
	for i := 0; i+len(pb) <= len(sb); {
		if ex.P.branch(ex.strEq(mkStr(sb[i:i+len(pb)]), sep)) {
			out = append(out, mkStr(sb[start:i]))
			i += len(pb)
			start = i
		} else {
			i++
		}
	}
	out = append(out, mkStr(sb[start:]))
	return out
}

// ---- natives: pure library functions applied to fully concrete arguments ----

func concInt(v Value) (int64, bool) {
	t, ok := v.(*smt.Term)
	if !ok || !t.IsConst() || t.S.K != smt.KBV {
		return 0, false
	}
	return t.SInt(), true
}

func concStr(v Value) (string, bool) {
	s, ok := v.(string)
	return s, ok
}

func errIface(err error) Value {
	if err == nil {
		return Iface{}
	}
	return Iface{T: nativeErrorType, V: err.Error()}
}

var nativeErrorType = types.NewNamed(types.NewTypeName(0, nil, "nativeError", nil), types.Typ[types.String], nil)

func (ex *Exec) tryNative(fn *ssa.Function, args []Value) (Value, bool) {
	if fn.Pkg == nil {
		return nil, false
	}
	switch fn.Pkg.Pkg.Path() {
	case "strconv", "unicode/utf8", "strings", "unicode":
	default:
		return nil, false
	}
	name := fn.String()
	s0, sok := "", false
	if len(args) > 0 {
		s0, sok = concStr(args[0])
	}
	i0, iok := int64(0), false
	if len(args) > 0 {
		i0, iok = concInt(args[0])
	}
	switch name {
	case "strconv.Quote":
		if sok {
			return strconv.Quote(s0), true
		}
	case "strconv.QuoteRune":
		if iok {
			return strconv.QuoteRune(rune(i0)), true
		}
	case "strconv.Unquote":
		if sok {
			r, err := strconv.Unquote(s0)
			return Tuple{r, errIface(err)}, true
		}
	case "strconv.FormatBool":
		if t, ok := args[0].(*smt.Term); ok && t.IsConst() {
			return strconv.FormatBool(t.C == 1), true
		}
	case "strconv.ParseBool":
		if sok {
			r, err := strconv.ParseBool(s0)
			return Tuple{smt.BoolC(r), errIface(err)}, true
		}
	case "strconv.FormatInt":
		if b, ok := concInt(args[1]); ok && iok {
			return strconv.FormatInt(i0, int(b)), true
		}
		if b, ok := concInt(args[1]); ok && (b == 10 || b == 16) {
			return ex.formatIntStub(args[0].(*smt.Term), int(b), true), true
		}
	case "strconv.Itoa":
		if iok {
			return strconv.Itoa(int(i0)), true
		}
	case "strconv.FormatUint":
		if b, ok := concInt(args[1]); ok && iok {
			return strconv.FormatUint(uint64(i0), int(b)), true
		}
		if b, ok := concInt(args[1]); ok && (b == 10 || b == 16) {
			return ex.formatIntStub(args[0].(*smt.Term), int(b), false), true
		}
	case "strconv.ParseInt":
		b, ok1 := concInt(args[1])
		w, ok2 := concInt(args[2])
		if sok && ok1 && ok2 {
			r, err := strconv.ParseInt(s0, int(b), int(w))
			return Tuple{smt.BVC(64, uint64(r)), errIface(err)}, true
		}
	case "strconv.ParseUint":
		b, ok1 := concInt(args[1])
		w, ok2 := concInt(args[2])
		if sok && ok1 && ok2 {
			r, err := strconv.ParseUint(s0, int(b), int(w))
			return Tuple{smt.BVC(64, r), errIface(err)}, true
		}
	case "strconv.FormatFloat":
		f, ok0 := args[0].(*smt.Term)
		c, ok1 := concInt(args[1])
		p, ok2 := concInt(args[2])
		w, ok3 := concInt(args[3])
		if ok0 && f.IsConst() && ok1 && ok2 && ok3 {
			return strconv.FormatFloat(f.Float(), byte(c), int(p), int(w)), true
		}
	case "strconv.ParseFloat":
		if w, ok := concInt(args[1]); ok && sok {
			r, err := strconv.ParseFloat(s0, int(w))
			return Tuple{smt.FPC64(r), errIface(err)}, true
		}
	case "strconv.ParseComplex":
		if w, ok := concInt(args[1]); ok && sok {
			r, err := strconv.ParseComplex(s0, int(w))
			return Tuple{Cplx{smt.FPC64(real(r)), smt.FPC64(imag(r))}, errIface(err)}, true
		}
	case "unicode/utf8.DecodeRuneInString":
		if sok {
			r, n := utf8.DecodeRuneInString(s0)
			return Tuple{smt.BVC(32, uint64(uint32(r))), smt.BVC(64, uint64(n))}, true
		}
		// symbolic: decode the first rune
		if s, ok := args[0].(*SymStr); ok && !s.Opaque {
			if len(s.B) == 0 {
				return Tuple{smt.BVC(32, 0xFFFD), smt.BVC(64, 0)}, true
			}
			r, n := ex.decodeRuneAt(s.B, 0)
			return Tuple{r, smt.BVC(64, uint64(n))}, true
		}
	case "unicode/utf8.RuneCountInString":
		if sok {
			return smt.BVC(64, uint64(utf8.RuneCountInString(s0))), true
		}
	case "unicode/utf8.ValidString":
		if sok {
			return smt.BoolC(utf8.ValidString(s0)), true
		}
	case "unicode/utf8.RuneLen":
		if iok {
			return smt.BVC(64, uint64(int64(utf8.RuneLen(rune(i0))))), true
		}
	case "unicode/utf8.ValidRune":
		if iok {
			return smt.BoolC(utf8.ValidRune(rune(i0))), true
		}
	case "strings.Repeat":
		if n, ok := concInt(args[1]); ok && sok {
			return strings.Repeat(s0, int(n)), true
		}
	}
	return nil, false
}

// ---- fmt.Sprintf ----

func (ex *Exec) sprintf(format Value, args Slice) Value {
	f, ok := format.(string)
	if !ok {
		return &SymStr{Opaque: true, Note: "symbolic format", Segs: []Value{nil}}
	}
	var segs []Value
	var lit strings.Builder
	flush := func() {
		if lit.Len() > 0 {
			segs = append(segs, lit.String())
			lit.Reset()
		}
	}
	unknown := false
	maxUnk := 0
	ai := 0
	for i := 0; i < len(f); i++ {
		if f[i] != '%' {
			lit.WriteByte(f[i])
			continue
		}
		j := i + 1
		for j < len(f) && strings.IndexByte("0123456789.+-# ", f[j]) >= 0 {
			j++
		}
		if j >= len(f) {
			lit.WriteString(f[i:])
			break
		}
		verb := f[j]
		spec := f[i : j+1]
		i = j
		if verb == '%' {
			lit.WriteByte('%')
			continue
		}
		if ai >= len(args) {
			lit.WriteString("%!" + string(verb) + "(MISSING)")
			continue
		}
		arg := args[ai].(Iface)
		ai++
		if verb == 'T' {
			if arg.T == nil {
				lit.WriteString("<nil>")
			} else {
				lit.WriteString(ex.typeString(arg.T))
			}
			continue
		}
		if nv, ok := toNative(arg); ok {
			lit.WriteString(fmt.Sprintf(spec, nv))
			continue
		}
		// symbolic argument
		if (verb == 's' || verb == 'v') && len(spec) == 2 {
			if sv, ok := arg.V.(*SymStr); ok && arg.T != nil && types.Identical(arg.T.Underlying(), types.Typ[types.String]) {
				flush()
				segs = append(segs, segsOf(sv)...)
				if sv.Opaque {
					unknown = true
				}
				continue
			}
		}
		flush()
		segs = append(segs, nil)
		unknown = true
		// how long the formatted argument can be at most, when that is known
		bound := -1
		switch av := arg.V.(type) {
		case *SymStr:
			if !av.Opaque && (verb == 'q' || verb == 's' || verb == 'v' || verb == 'x') {
				bound = 4*len(av.B) + 2 // every byte as \xNN plus the quotes
				if p := precisionOf(spec); p >= 0 && verb == 'q' && p < len(av.B) {
					bound = 4*p + 2
				}
			}
		case *smt.Term:
			if av.S.K == smt.KBV || av.S.K == smt.KBool {
				bound = 24
				if verb == 'q' || verb == 'c' || verb == 'U' {
					bound = 12
				}
			}
		}
		if bound < 0 || maxUnk < 0 {
			maxUnk = -1
		} else {
			maxUnk += bound
		}
	}
	flush()
	if !unknown {
		var out Value = ""
		for _, sg := range segs {
			out = ex.strConcat(out, sg)
		}
		return out
	}
	r := &SymStr{Opaque: true, Note: "Sprintf(" + f + ")", Segs: segs}
	if maxUnk > 0 {
		r.MaxUnk = maxUnk
	}
	return r
}

// precisionOf extracts the precision of a format specification such as %.40q (-1 if none).
func precisionOf(spec string) int {
	i := strings.IndexByte(spec, '.')
	if i < 0 {
		return -1
	}
	n, any := 0, false
	for j := i + 1; j < len(spec) && spec[j] >= '0' && spec[j] <= '9'; j++ {
		n, any = n*10+int(spec[j]-'0'), true
	}
	if !any {
		return 0
	}
	return n
}

// toNative converts a concrete, simple engine value into a Go value for fmt.
func toNative(itf Iface) (interface{}, bool) {
	if itf.T == nil {
		return nil, true
	}
	switch v := itf.V.(type) {
	case string:
		return v, true
	case *smt.Term:
		if !v.IsConst() {
			return nil, false
		}
		b, ok := itf.T.Underlying().(*types.Basic)
		if !ok {
			return nil, false
		}
		switch {
		case b.Info()&types.IsBoolean != 0:
			return v.C == 1, true
		case b.Info()&types.IsUnsigned != 0:
			return v.C, true
		case b.Kind() == types.Int32:
			return int32(v.SInt()), true
		case b.Info()&types.IsInteger != 0:
			return v.SInt(), true
		case b.Info()&types.IsFloat != 0:
			if b.Kind() == types.Float32 {
				return float32(v.Float()), true
			}
			return v.Float(), true
		}
	}
	return nil, false
}

// formatIntStub is the contract of strconv.FormatInt / FormatUint for a symbolic
// argument: the shortest digit string of x in the base (forking on sign and
// digit count).  Base 16 digits are nibbles of x; base 10 digits are fresh
// variables d_i in 0..9 constrained by x = sum d_i * 10^k, so that the *real*
// ParseInt / scanner code is then checked against that contract.
func (ex *Exec) formatIntStub(x *smt.Term, base int, signed bool) Value {
	ex.Stubs["strconv.FormatInt/FormatUint (symbolic: contract stub)"]++
	c64 := func(v uint64) *smt.Term { return smt.BVC(64, v) }
	neg := false
	m := x
	if signed && ex.P.branch(smt.SLt(x, c64(0))) {
		neg = true
		m = smt.Neg(x)
	}
	var out []*smt.Term
	if neg {
		out = append(out, byteConst['-'])
	}
	if base == 16 {
		L := 1
		for L < 16 && !ex.P.branch(smt.ULt(m, c64(uint64(1)<<(4*uint(L))))) {
			L++
		}
		for i := 0; i < L; i++ {
			n := smt.BAnd(smt.LShr(m, c64(uint64(4*(L-1-i)))), c64(15))
			n8 := smt.Resize(n, 8, false)
			ch := smt.Ite(smt.ULt(n8, smt.BVC(8, 10)), smt.Add(n8, smt.BVC(8, '0')), smt.Add(n8, smt.BVC(8, 'a'-10)))
			out = append(out, ch)
		}
		return mkStr(out)
	}
	L := 1
	pow := uint64(10)
	for L < 20 {
		if ex.P.branch(smt.ULt(m, c64(pow))) {
			break
		}
		L++
		if L == 20 {
			break
		}
		pow *= 10
	}
	ex.P.nChoice++
	sum := c64(0)
	p10 := uint64(1)
	ds := make([]*smt.Term, L)
	for i := L - 1; i >= 0; i-- {
		d := ex.P.newInput(fmt.Sprintf("fmtint#%d.d%d", ex.P.nChoice, i), smt.BV(8))
		ds[i] = d
		ex.P.assert(smt.ULe(d, smt.BVC(8, 9)))
		sum = smt.Add(sum, smt.Mul(smt.Resize(d, 64, false), c64(p10)))
		p10 *= 10
	}
	if L > 1 {
		ex.P.assert(smt.Not(smt.Eq(ds[0], smt.BVC(8, 0))))
	}
	ex.P.assert(smt.Eq(sum, m))
	for _, d := range ds {
		out = append(out, smt.Add(d, smt.BVC(8, '0')))
	}
	return mkStr(out)
}
