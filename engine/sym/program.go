package sym

import (
	"fmt"
	"go/types"
	"os"
	"path/filepath"
	"strings"

	"golang.org/x/tools/go/packages"
	"golang.org/x/tools/go/ssa"
	"golang.org/x/tools/go/ssa/ssautil"
)

// Program is the immutable, shared result of loading /repo with the harness overlay.
type Program struct {
	Prog       *ssa.Program
	ModPath    string
	Pkgs       map[string]*ssa.Package // by import path
	Repo       []*ssa.Package          // packages of the module, dependency order
	LoadErrors []string
	funcCache  map[string]*ssa.Function
}

// Load type-checks and builds SSA for every package under repoDir (the module
// root, e.g. /repo/v4) with the given overlay files and build tags.
func Load(repoDir string, overlay map[string][]byte, tags string) (*Program, error) {
	cfg := &packages.Config{
		Mode:       packages.LoadAllSyntax | packages.NeedModule,
		Dir:        repoDir,
		Overlay:    overlay,
		BuildFlags: []string{"-tags=" + tags},
		Env:        append(os.Environ(), "GOFLAGS=-mod=mod", "GOPROXY=off", "GOSUMDB=off", "GOTOOLCHAIN=local", "CGO_ENABLED=0"),
	}
	pkgs, err := packages.Load(cfg, "./...")
	if err != nil {
		return nil, err
	}
	p := &Program{Pkgs: map[string]*ssa.Package{}, funcCache: map[string]*ssa.Function{}}
	for _, pk := range pkgs {
		for _, e := range pk.Errors {
			p.LoadErrors = append(p.LoadErrors, e.Error())
		}
		if pk.Module != nil && p.ModPath == "" {
			p.ModPath = pk.Module.Path
		}
	}
	if len(p.LoadErrors) > 0 {
		return p, fmt.Errorf("load errors: %s", strings.Join(p.LoadErrors, "; "))
	}
	prog, spkgs := ssautil.AllPackages(pkgs, ssa.InstantiateGenerics)
	p.Prog = prog
	prog.Build()
	for _, sp := range prog.AllPackages() {
		p.Pkgs[sp.Pkg.Path()] = sp
	}
	// dependency order among repo packages
	seen := map[string]bool{}
	var visit func(pk *packages.Package)
	visit = func(pk *packages.Package) {
		if seen[pk.PkgPath] {
			return
		}
		seen[pk.PkgPath] = true
		for _, imp := range pk.Imports {
			visit(imp)
		}
		if strings.HasPrefix(pk.PkgPath, p.ModPath) {
			if sp := p.Pkgs[pk.PkgPath]; sp != nil {
				p.Repo = append(p.Repo, sp)
			}
		}
	}
	for _, pk := range pkgs {
		visit(pk)
	}
	_ = spkgs
	return p, nil
}

func (p *Program) isRepoPkg(pkg *types.Package) bool {
	return pkg != nil && strings.HasPrefix(pkg.Path(), p.ModPath)
}

// LookupFunc finds a package-level function "importpath.Name".
func (p *Program) LookupFunc(pkgPath, name string) *ssa.Function {
	sp := p.Pkgs[pkgPath]
	if sp == nil {
		return nil
	}
	return sp.Func(name)
}

// OverlayFromDir maps every file under srcDir (recursively) onto dstDir.
func OverlayFromDir(srcDir, dstDir string, into map[string][]byte) error {
	return filepath.Walk(srcDir, func(path string, info os.FileInfo, err error) error {
		if err != nil {
			return err
		}
		if info.IsDir() {
			return nil
		}
		rel, _ := filepath.Rel(srcDir, path)
		b, err := os.ReadFile(path)
		if err != nil {
			return err
		}
		into[filepath.Join(dstDir, rel)] = b
		return nil
	})
}
