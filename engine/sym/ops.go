package sym

import (
	"fmt"
	"go/constant"
	"go/token"
	"go/types"
	"strings"
	"unicode/utf8"

	"golang.org/x/tools/go/ssa"

	"verif/engine/smt"
)

func constBool(c *ssa.Const) bool     { return constant.BoolVal(c.Value) }
func constString(c *ssa.Const) string { return constant.StringVal(c.Value) }

// ---- unary ----

func (ex *Exec) unop(fr *frame, instr *ssa.UnOp, x Value) Value {
	switch instr.Op {
	case token.ARROW:
		return ex.chanRecv(fr, x.(*Chan), instr.CommaOk, instr.X.Type().Underlying().(*types.Chan).Elem())
	case token.MUL:
		return ex.load(x.(*Value))
	case token.SUB:
		switch x := x.(type) {
		case *smt.Term:
			if x.S.K == smt.KFP {
				return smt.FPNeg(x)
			}
			return smt.Neg(x)
		case Cplx:
			return Cplx{smt.FPNeg(x.Re), smt.FPNeg(x.Im)}
		}
	case token.NOT:
		return smt.Not(x.(*smt.Term))
	case token.XOR:
		return smt.BNot(x.(*smt.Term))
	}
	panic(fmt.Sprintf("unop %v %T", instr.Op, x))
}

// ---- binary ----

func (ex *Exec) binop(op token.Token, t types.Type, x, y Value) Value {
	switch op {
	case token.EQL:
		return ex.eq(t, x, y)
	case token.NEQ:
		return smt.Not(ex.eq(t, x, y))
	}
	switch xv := x.(type) {
	case *smt.Term:
		yv := y.(*smt.Term)
		if xv.S.K == smt.KFP {
			switch op {
			case token.ADD:
				return smt.FPAdd(xv, yv)
			case token.SUB:
				return smt.FPSub(xv, yv)
			case token.MUL:
				return smt.FPMul(xv, yv)
			case token.QUO:
				return smt.FPDiv(xv, yv)
			case token.LSS:
				return smt.FPLt(xv, yv)
			case token.LEQ:
				return smt.FPLe(xv, yv)
			case token.GTR:
				return smt.FPLt(yv, xv)
			case token.GEQ:
				return smt.FPLe(yv, xv)
			}
			panic("float binop " + op.String())
		}
		if xv.S.K == smt.KBool {
			switch op {
			case token.AND:
				return smt.And(xv, yv)
			case token.OR:
				return smt.Or(xv, yv)
			}
			panic("bool binop " + op.String())
		}
		signed := isSigned(t)
		switch op {
		case token.ADD:
			return smt.Add(xv, yv)
		case token.SUB:
			return smt.Sub(xv, yv)
		case token.MUL:
			return smt.Mul(xv, yv)
		case token.QUO, token.REM:
			if ex.P.branch(smt.Eq(yv, smt.BVC(yv.S.W, 0))) {
				ex.rtPanic("integer divide by zero")
			}
			if op == token.QUO {
				if signed {
					return smt.SDiv(xv, yv)
				}
				return smt.UDiv(xv, yv)
			}
			if signed {
				return smt.SRem(xv, yv)
			}
			return smt.URem(xv, yv)
		case token.AND:
			return smt.BAnd(xv, yv)
		case token.OR:
			return smt.BOr(xv, yv)
		case token.XOR:
			return smt.BXor(xv, yv)
		case token.AND_NOT:
			return smt.BAnd(xv, smt.BNot(yv))
		case token.SHL, token.SHR:
			// the shift count has its own type; widen/narrow it to x's width
			sh := yv
			if sh.S.W > xv.S.W {
				// large counts: saturate
				big := smt.ULe(smt.BVC(sh.S.W, uint64(xv.S.W)), sh)
				shn := smt.Resize(sh, xv.S.W, false)
				sh = smt.Ite(big, smt.BVC(xv.S.W, uint64(xv.S.W)), shn)
			} else if sh.S.W < xv.S.W {
				sh = smt.Resize(sh, xv.S.W, false)
			}
			if op == token.SHL {
				return smt.Shl(xv, sh)
			}
			if signed {
				return smt.AShr(xv, sh)
			}
			return smt.LShr(xv, sh)
		case token.LSS:
			if signed {
				return smt.SLt(xv, yv)
			}
			return smt.ULt(xv, yv)
		case token.LEQ:
			if signed {
				return smt.SLe(xv, yv)
			}
			return smt.ULe(xv, yv)
		case token.GTR:
			if signed {
				return smt.SLt(yv, xv)
			}
			return smt.ULt(yv, xv)
		case token.GEQ:
			if signed {
				return smt.SLe(yv, xv)
			}
			return smt.ULe(yv, xv)
		}
	case string, *SymStr:
		switch op {
		case token.ADD:
			return ex.strConcat(x, y)
		case token.LSS:
			return ex.strLess(x, y)
		case token.GTR:
			return ex.strLess(y, x)
		case token.LEQ:
			return smt.Not(ex.strLess(y, x))
		case token.GEQ:
			return smt.Not(ex.strLess(x, y))
		}
	case Cplx:
		yv := y.(Cplx)
		switch op {
		case token.ADD:
			return Cplx{smt.FPAdd(xv.Re, yv.Re), smt.FPAdd(xv.Im, yv.Im)}
		case token.SUB:
			return Cplx{smt.FPSub(xv.Re, yv.Re), smt.FPSub(xv.Im, yv.Im)}
		case token.MUL:
			return Cplx{
				smt.FPSub(smt.FPMul(xv.Re, yv.Re), smt.FPMul(xv.Im, yv.Im)),
				smt.FPAdd(smt.FPMul(xv.Re, yv.Im), smt.FPMul(xv.Im, yv.Re))}
		}
	}
	panic(fmt.Sprintf("binop %v on %T", op, x))
}

func segsOf(v Value) []Value {
	if s, ok := v.(*SymStr); ok && s.Opaque {
		if s.Segs == nil {
			return []Value{nil}
		}
		return s.Segs
	}
	if strLen(v) == 0 {
		return nil
	}
	return []Value{v}
}

func (ex *Exec) strConcat(x, y Value) Value {
	if isOpaque(x) || isOpaque(y) {
		note := ""
		if isOpaque(x) {
			note = x.(*SymStr).Note
		} else {
			note = y.(*SymStr).Note
		}
		return &SymStr{Opaque: true, Note: note, Segs: append(append([]Value{}, segsOf(x)...), segsOf(y)...)}
	}
	if a, ok := x.(string); ok {
		if b, ok := y.(string); ok {
			return a + b
		}
	}
	b := append(append([]*smt.Term{}, strBytes(x)...), strBytes(y)...)
	return mkStr(b)
}

// knownText renders an opaque string with its unknown parts shown as "<?>";
// known symbolic bytes are shown as '?' unless they are constants.
func knownText(v Value) string {
	var sb strings.Builder
	for _, seg := range segsOf(v) {
		switch t := seg.(type) {
		case nil:
			sb.WriteString("<?>")
		case string:
			sb.WriteString(t)
		case *SymStr:
			for _, b := range t.B {
				if b.IsConst() {
					sb.WriteByte(byte(b.C))
				} else {
					sb.WriteByte('?')
				}
			}
		}
	}
	return sb.String()
}

// strLess is byte-wise lexicographic x < y as a single term (no forking).
func (ex *Exec) strLess(x, y Value) *smt.Term {
	if a, ok := x.(string); ok {
		if b, ok := y.(string); ok {
			return smt.BoolC(a < b)
		}
	}
	if isOpaque(x) || isOpaque(y) {
		ex.abort("comparison of opaque string")
	}
	a, b := strBytes(x), strBytes(y)
	// less(i) = i<len(a),len(b): a[i]<b[i] || (a[i]==b[i] && less(i+1)); at end: len(a) < len(b)
	n := len(a)
	if len(b) < n {
		n = len(b)
	}
	r := smt.BoolC(len(a) < len(b))
	for i := n - 1; i >= 0; i-- {
		r = smt.Or(smt.ULt(a[i], b[i]), smt.And(smt.Eq(a[i], b[i]), r))
	}
	return r
}

func (ex *Exec) strEq(x, y Value) *smt.Term {
	if a, ok := x.(string); ok {
		if b, ok := y.(string); ok {
			return smt.BoolC(a == b)
		}
	}
	if isOpaque(x) || isOpaque(y) {
		ex.abort("comparison of opaque string")
	}
	a, b := strBytes(x), strBytes(y)
	if len(a) != len(b) {
		return smt.False
	}
	r := smt.True
	for i := range a {
		r = smt.And(r, smt.Eq(a[i], b[i]))
	}
	return r
}

// eq implements Go's == for static type t.
func (ex *Exec) eq(t types.Type, x, y Value) *smt.Term {
	switch xv := x.(type) {
	case *smt.Term:
		yv := y.(*smt.Term)
		if xv.S.K == smt.KFP {
			return smt.FPEq(xv, yv)
		}
		return smt.Eq(xv, yv)
	case Cplx:
		yv := y.(Cplx)
		return smt.And(smt.FPEq(xv.Re, yv.Re), smt.FPEq(xv.Im, yv.Im))
	case string, *SymStr:
		return ex.strEq(x, y)
	case *Value:
		return smt.BoolC(xv == y.(*Value))
	case *Chan:
		return smt.BoolC(xv == y.(*Chan))
	case *Map:
		ym, _ := y.(*Map)
		if xv == nil || ym == nil {
			return smt.BoolC(xv == nil && ym == nil)
		}
		ex.rtPanic("comparing uncomparable type map")
	case Slice:
		ys, _ := y.(Slice)
		if xv == nil || ys == nil {
			return smt.BoolC(xv == nil && ys == nil)
		}
		ex.rtPanic("comparing uncomparable type slice")
	case *ssa.Function:
		if xv == nil {
			switch yv := y.(type) {
			case *ssa.Function:
				return smt.BoolC(yv == nil)
			case *Closure:
				return smt.BoolC(yv == nil)
			}
		}
		if yf, ok := y.(*ssa.Function); ok && yf == nil {
			return smt.False
		}
		ex.rtPanic("comparing uncomparable type func")
	case *Closure:
		switch yv := y.(type) {
		case *ssa.Function:
			if yv == nil {
				return smt.BoolC(xv == nil)
			}
		case *Closure:
			if yv == nil || xv == nil {
				return smt.BoolC(xv == nil && yv == nil)
			}
		}
		ex.rtPanic("comparing uncomparable type func")
	case Struct:
		yv := y.(Struct)
		st := t.Underlying().(*types.Struct)
		r := smt.True
		for i := range xv {
			if st.Field(i).Name() == "_" {
				continue
			}
			r = smt.And(r, ex.eq(st.Field(i).Type(), xv[i], yv[i]))
		}
		return r
	case Array:
		yv := y.(Array)
		et := t.Underlying().(*types.Array).Elem()
		r := smt.True
		for i := range xv {
			r = smt.And(r, ex.eq(et, xv[i], yv[i]))
		}
		return r
	case Iface:
		yv := y.(Iface)
		if xv.T == nil || yv.T == nil {
			return smt.BoolC(xv.T == nil && yv.T == nil)
		}
		if !types.Identical(xv.T, yv.T) {
			return smt.False
		}
		if xv.T == rtypeMarker {
			return smt.BoolC(types.Identical(xv.V.(RType).T, yv.V.(RType).T))
		}
		if !types.Comparable(xv.T) {
			panic(&goPanic{V: Iface{T: types.Typ[types.String], V: "runtime error: comparing uncomparable type " + xv.T.String()}, Runtime: true, Msg: "runtime error: comparing uncomparable type " + xv.T.String()})
		}
		return ex.eq(xv.T, xv.V, yv.V)
	case RType:
		return smt.BoolC(types.Identical(xv.T, y.(RType).T))
	case *RVal:
		ex.abort("== on reflect.Value")
	}
	panic(fmt.Sprintf("eq: %T (%v)", x, t))
}

// ---- conversions ----

func (ex *Exec) conv(dst, src types.Type, x Value) Value {
	ud := dst.Underlying()
	us := src.Underlying()
	switch us := us.(type) {
	case *types.Pointer:
		switch ud.(type) {
		case *types.Pointer:
			return x
		case *types.Basic: // unsafe.Pointer
			return x
		}
	case *types.Slice:
		// []byte / []rune -> string
		if b, ok := ud.(*types.Basic); ok && b.Info()&types.IsString != 0 {
			s := x.(Slice)
			if eb, ok := us.Elem().Underlying().(*types.Basic); ok {
				if eb.Kind() == types.Uint8 {
					bs := make([]*smt.Term, len(s))
					for i, v := range s {
						bs[i] = v.(*smt.Term)
					}
					return mkStr(bs)
				}
				if eb.Kind() == types.Int32 {
					var out []*smt.Term
					for _, v := range s {
						out = append(out, ex.encodeRune(v.(*smt.Term))...)
					}
					return mkStr(out)
				}
			}
		}
		if _, ok := ud.(*types.Slice); ok {
			return x
		}
	case *types.Basic:
		// unsafe.Pointer -> *T
		if us.Kind() == types.UnsafePointer {
			return x
		}
		// string -> []byte / []rune
		if us.Info()&types.IsString != 0 {
			if sl, ok := ud.(*types.Slice); ok {
				if s, ok := x.(*SymStr); ok {
					ex.needClear(s)
				}
				eb := sl.Elem().Underlying().(*types.Basic)
				if eb.Kind() == types.Uint8 {
					bs := strBytes(x)
					out := make(Slice, len(bs))
					for i, b := range bs {
						out[i] = b
					}
					return out
				}
				if eb.Kind() == types.Int32 {
					rs := ex.decodeRunes(x)
					out := make(Slice, len(rs))
					for i, r := range rs {
						out[i] = r
					}
					return out
				}
			}
			if b, ok := ud.(*types.Basic); ok && b.Info()&types.IsString != 0 {
				return x
			}
		}
		db, ok := ud.(*types.Basic)
		if !ok {
			break
		}
		// integer -> string
		if db.Info()&types.IsString != 0 && us.Info()&types.IsInteger != 0 {
			t := x.(*smt.Term)
			r := smt.Resize(t, 32, isSigned(src))
			if t.S.W > 32 {
				// out of range values become U+FFFD
				fits := smt.Eq(smt.Resize(r, t.S.W, true), t)
				r = smt.Ite(fits, r, smt.BVC(32, 0xFFFD))
			}
			return mkStr(ex.encodeRune(r))
		}
		if c, ok := x.(Cplx); ok {
			if db.Kind() == types.Complex64 {
				return Cplx{smt.FPConv(c.Re, 32), smt.FPConv(c.Im, 32)}
			}
			return Cplx{smt.FPConv(c.Re, 64), smt.FPConv(c.Im, 64)}
		}
		t, ok := x.(*smt.Term)
		if !ok {
			break
		}
		ds, ok := basicSort(db)
		if !ok {
			break
		}
		switch {
		case t.S.K == smt.KBV && ds.K == smt.KBV:
			return smt.Resize(t, ds.W, isSigned(src))
		case t.S.K == smt.KBV && ds.K == smt.KFP:
			return smt.IntToFP(t, ds.W, isSigned(src))
		case t.S.K == smt.KFP && ds.K == smt.KBV:
			return smt.FPToInt(t, ds.W, isSigned(dst))
		case t.S.K == smt.KFP && ds.K == smt.KFP:
			return smt.FPConv(t, ds.W)
		case t.S.K == smt.KBool && ds.K == smt.KBool:
			return t
		}
	}
	panic(fmt.Sprintf("conv: %v -> %v (%T)", src, dst, x))
}

// encodeRune is utf8.EncodeRune over a 32-bit term; forks on the length class.
func (ex *Exec) encodeRune(r *smt.Term) []*smt.Term {
	if r.IsConst() {
		var buf [4]byte
		n := utf8.EncodeRune(buf[:], rune(int32(r.C)))
		out := make([]*smt.Term, n)
		for i := 0; i < n; i++ {
			out[i] = byteConst[buf[i]]
		}
		return out
	}
	c := func(v uint64) *smt.Term { return smt.BVC(32, v) }
	b8 := func(t *smt.Term) *smt.Term { return smt.Resize(t, 8, false) }
	sh := func(t *smt.Term, n uint64) *smt.Term { return smt.LShr(t, c(n)) }
	cont := func(t *smt.Term) *smt.Term { return b8(smt.BOr(c(0x80), smt.BAnd(t, c(0x3f)))) }
	if ex.P.branch(smt.ULt(r, c(0x80))) {
		return []*smt.Term{b8(r)}
	}
	if ex.P.branch(smt.ULt(r, c(0x800))) {
		return []*smt.Term{b8(smt.BOr(c(0xC0), sh(r, 6))), cont(r)}
	}
	bad := smt.Or(smt.ULt(c(0x10FFFF), r), smt.And(smt.ULe(c(0xD800), r), smt.ULe(r, c(0xDFFF))))
	if ex.P.branch(bad) {
		return []*smt.Term{byteConst[0xEF], byteConst[0xBF], byteConst[0xBD]}
	}
	if ex.P.branch(smt.ULt(r, c(0x10000))) {
		return []*smt.Term{b8(smt.BOr(c(0xE0), sh(r, 12))), cont(sh(r, 6)), cont(r)}
	}
	return []*smt.Term{b8(smt.BOr(c(0xF0), sh(r, 18))), cont(sh(r, 12)), cont(sh(r, 6)), cont(r)}
}

// decodeRunes is []rune(s); symbolic bytes fork on their UTF-8 class.
func (ex *Exec) decodeRunes(s Value) []*smt.Term {
	if cs, ok := s.(string); ok {
		var out []*smt.Term
		for _, r := range cs {
			out = append(out, smt.BVC(32, uint64(uint32(r))))
		}
		return out
	}
	b := strBytes(s)
	var out []*smt.Term
	i := 0
	for i < len(b) {
		r, n := ex.decodeRuneAt(b, i)
		out = append(out, r)
		i += n
	}
	return out
}

// decodeRuneAt mirrors utf8.DecodeRune on symbolic bytes.
func (ex *Exec) decodeRuneAt(b []*smt.Term, i int) (*smt.Term, int) {
	c8 := func(v uint64) *smt.Term { return smt.BVC(8, v) }
	z := func(t *smt.Term) *smt.Term { return smt.Resize(t, 32, false) }
	c32 := func(v uint64) *smt.Term { return smt.BVC(32, v) }
	runeErr := c32(0xFFFD)
	b0 := b[i]
	if ex.P.branch(smt.ULt(b0, c8(0x80))) {
		return z(b0), 1
	}
	inRange := func(t *smt.Term, lo, hi uint64) *smt.Term {
		return smt.And(smt.ULe(c8(lo), t), smt.ULe(t, c8(hi)))
	}
	// invalid leading bytes: 0x80..0xC1, 0xF5..0xFF
	if ex.P.branch(smt.Or(smt.ULt(b0, c8(0xC2)), smt.ULt(c8(0xF4), b0))) {
		return runeErr, 1
	}
	low6 := func(t *smt.Term) *smt.Term { return smt.BAnd(z(t), c32(0x3f)) }
	shl := func(t *smt.Term, n uint64) *smt.Term { return smt.Shl(t, c32(n)) }
	if ex.P.branch(smt.ULt(b0, c8(0xE0))) { // 2 bytes
		if i+1 >= len(b) {
			return runeErr, 1
		}
		if !ex.P.branch(inRange(b[i+1], 0x80, 0xBF)) {
			return runeErr, 1
		}
		return smt.BOr(shl(smt.BAnd(z(b0), c32(0x1f)), 6), low6(b[i+1])), 2
	}
	if ex.P.branch(smt.ULt(b0, c8(0xF0))) { // 3 bytes
		if i+2 >= len(b) {
			return runeErr, 1
		}
		lo, hi := uint64(0x80), uint64(0xBF)
		// E0: A0..BF, ED: 80..9F
		var ok1 *smt.Term
		ok1 = smt.Ite(smt.Eq(b0, c8(0xE0)), inRange(b[i+1], 0xA0, 0xBF),
			smt.Ite(smt.Eq(b0, c8(0xED)), inRange(b[i+1], 0x80, 0x9F), inRange(b[i+1], lo, hi)))
		if !ex.P.branch(ok1) {
			return runeErr, 1
		}
		if !ex.P.branch(inRange(b[i+2], 0x80, 0xBF)) {
			return runeErr, 1
		}
		return smt.BOr(smt.BOr(shl(smt.BAnd(z(b0), c32(0x0f)), 12), shl(low6(b[i+1]), 6)), low6(b[i+2])), 3
	}
	// 4 bytes
	if i+3 >= len(b) {
		return runeErr, 1
	}
	ok1 := smt.Ite(smt.Eq(b0, c8(0xF0)), inRange(b[i+1], 0x90, 0xBF),
		smt.Ite(smt.Eq(b0, c8(0xF4)), inRange(b[i+1], 0x80, 0x8F), inRange(b[i+1], 0x80, 0xBF)))
	if !ex.P.branch(ok1) {
		return runeErr, 1
	}
	if !ex.P.branch(inRange(b[i+2], 0x80, 0xBF)) {
		return runeErr, 1
	}
	if !ex.P.branch(inRange(b[i+3], 0x80, 0xBF)) {
		return runeErr, 1
	}
	return smt.BOr(smt.BOr(smt.BOr(shl(smt.BAnd(z(b0), c32(0x07)), 18), shl(low6(b[i+1]), 12)), shl(low6(b[i+2]), 6)), low6(b[i+3])), 4
}

// ---- maps ----

// keyEq is map-key equality (Go ==, so NaN keys never match).
func (ex *Exec) keyEq(t types.Type, a, b Value) *smt.Term {
	return ex.eq(t, a, b)
}

func (ex *Exec) mapFind(m *Map, key Value) *mapEntry {
	if ex.accessLog != nil {
		ex.accessLog.noteObj(ex, m, false)
	}
	if itf, ok := key.(Iface); ok && itf.T != nil && !types.Comparable(itf.T) {
		panic(&goPanic{V: Iface{T: types.Typ[types.String], V: "runtime error: hash of unhashable type " + itf.T.String()}, Runtime: true, Msg: "runtime error: hash of unhashable type " + itf.T.String()})
	}
	for _, e := range m.Entries {
		if ex.P.branch(ex.keyEq(m.KeyT, e.K, key)) {
			return e
		}
	}
	return nil
}

func (ex *Exec) mapUpdate(m *Map, key, val Value) {
	if e := ex.mapFind(m, key); e != nil {
		e.V = val
		if ex.accessLog != nil {
			ex.accessLog.noteObj(ex, m, true)
		}
		return
	}
	if ex.accessLog != nil {
		ex.accessLog.noteObj(ex, m, true)
	}
	m.Entries = append(m.Entries, &mapEntry{K: key, V: val})
	m.sticky = nil
}

func (ex *Exec) mapDelete(m *Map, key Value) {
	e := ex.mapFind(m, key)
	if e == nil {
		return
	}
	if ex.accessLog != nil {
		ex.accessLog.noteObj(ex, m, true)
	}
	for i, x := range m.Entries {
		if x == e {
			m.Entries = append(m.Entries[:i:i], m.Entries[i+1:]...)
			m.sticky = nil
			return
		}
	}
}

func (ex *Exec) lookup(instr *ssa.Lookup, x, idx Value) Value {
	switch x := x.(type) {
	case *Map:
		vt := instr.X.Type().Underlying().(*types.Map).Elem()
		var v Value
		ok := false
		if x != nil {
			if e := ex.mapFind(x, idx); e != nil {
				v, ok = copyVal(e.V), true
			}
		}
		if !ok {
			v = zero(vt)
		}
		if instr.CommaOk {
			return Tuple{v, smt.BoolC(ok)}
		}
		return v
	case string, *SymStr:
		return ex.index(x, idx.(*smt.Term), isSigned(instr.Index.Type()))
	}
	panic(fmt.Sprintf("lookup: %T", x))
}

// ---- range ----

func (ex *Exec) rangeIter(x Value, t types.Type) Value {
	switch x := x.(type) {
	case *Map:
		it := &Iter{kind: 0, m: x}
		if x != nil {
			it.order = ex.mapOrder(x)
		}
		return it
	case string, *SymStr:
		if s, ok := x.(*SymStr); ok {
			ex.needClear(s)
		}
		return &Iter{kind: 1, str: x}
	}
	panic(fmt.Sprintf("range over %T", x))
}

// mapOrder picks an iteration order: a choice point over all permutations for
// small maps (Go leaves the order unspecified), insertion order or its reverse otherwise.
func (ex *Exec) mapOrder(m *Map) []*mapEntry {
	r := ex.mapOrder0(m)
	if ex.MapOrderSticky && m != nil {
		m.sticky = append([]*mapEntry(nil), r...)
	}
	return r
}

func (ex *Exec) mapOrder0(m *Map) []*mapEntry {
	if ex.accessLog != nil {
		ex.accessLog.noteObj(ex, m, false)
	}
	n := len(m.Entries)
	es := append([]*mapEntry(nil), m.Entries...)
	if n <= 1 || ex.MapOrderMax < 0 {
		return es // MapOrderMax < 0: insertion order only (the harness varies the insertion order itself)
	}
	if ex.MapOrderSticky && m.sticky != nil && len(m.sticky) == n {
		return append([]*mapEntry(nil), m.sticky...)
	}

	if n <= ex.MapOrderMax {
		perms := permutations(n)
		conds := make([]*smt.Term, len(perms))
		for i := range conds {
			conds[i] = smt.True
		}
		k := ex.chooseFree(len(perms))
		out := make([]*mapEntry, n)
		for i, j := range perms[k] {
			out[i] = es[j]
		}
		return out
	}
	if ex.chooseFree(2) == 1 {
		for i, j := 0, n-1; i < j; i, j = i+1, j-1 {
			es[i], es[j] = es[j], es[i]
		}
	}
	return es
}

// chooseFree is an unconstrained choice among n alternatives (all feasible).
func (ex *Exec) chooseFree(n int) int {
	conds := make([]*smt.Term, n)
	for i := range conds {
		conds[i] = smt.True
	}
	return ex.P.choose(conds)
}

func permutations(n int) [][]int {
	var res [][]int
	var rec func(cur []int, used []bool)
	rec = func(cur []int, used []bool) {
		if len(cur) == n {
			res = append(res, append([]int(nil), cur...))
			return
		}
		for i := 0; i < n; i++ {
			if !used[i] {
				used[i] = true
				rec(append(cur, i), used)
				used[i] = false
			}
		}
	}
	rec(nil, make([]bool, n))
	return res
}

func (ex *Exec) iterNext(it *Iter, instr *ssa.Next) Value {
	if it.kind == 0 {
		for it.pos < len(it.order) {
			e := it.order[it.pos]
			it.pos++
			// skip entries deleted during iteration
			live := false
			for _, x := range it.m.Entries {
				if x == e {
					live = true
					break
				}
			}
			if live {
				return Tuple{smt.True, e.K, copyVal(e.V)}
			}
		}
		mt := instr.Iter.(*ssa.Range).X.Type().Underlying().(*types.Map)
		return Tuple{smt.False, zero(mt.Key()), zero(mt.Elem())}
	}
	b := strBytes(it.str)
	if it.pos >= len(b) {
		return Tuple{smt.False, smt.BVC(64, 0), smt.BVC(32, 0)}
	}
	var r *smt.Term
	var n int
	if cs, ok := it.str.(string); ok {
		rr, nn := utf8.DecodeRuneInString(cs[it.pos:])
		r, n = smt.BVC(32, uint64(uint32(rr))), nn
	} else {
		r, n = ex.decodeRuneAt(b, it.pos)
	}
	idx := smt.BVC(64, uint64(it.pos))
	it.pos += n
	return Tuple{smt.True, idx, r}
}
