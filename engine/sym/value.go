// Package sym is a symbolic executor for go/ssa.
//
// Heap shape is concrete (object identities, slice lengths, dynamic types of
// interface values); scalars and string bytes may be SMT terms.
package sym

import (
	"fmt"
	"go/types"
	"strings"

	"golang.org/x/tools/go/ssa"

	"verif/engine/smt"
)

// Value is one of:
//
//	*smt.Term              bool, integers, floats
//	Cplx                   complex numbers
//	string                 fully concrete string
//	*SymStr                string with symbolic bytes (concrete length) or opaque
//	*Value                 pointer (nil pointer = (*Value)(nil))
//	Struct, Array          aggregates (stored by value, copied on load/store)
//	Slice                  []Value sharing the backing array
//	*Map, *Chan            reference objects (nil = typed nil pointer)
//	Iface                  interface value with concrete dynamic type
//	*Closure, *ssa.Function, *ssa.Builtin
//	Tuple
//	*RVal                  reflect.Value
//	RType                  dynamic value of a reflect.Type interface
//	*Iter                  range iterator
type Value interface{}

type Cplx struct{ Re, Im *smt.Term }

type SymStr struct {
	B      []*smt.Term // one BV8 term per byte
	Opaque bool        // contents partly unknown (formatted from symbolic data)
	Note   string
	Segs   []Value   // for opaque strings: known segments (string / non-opaque *SymStr) and nil = unknown text
	LenT   *smt.Term // cached symbolic length of an opaque string
	MaxUnk int       // upper bound on the total length of the unknown segments (0 = no bound known)
}

type Struct []Value
type Array []Value
type Slice []Value
type Tuple []Value

type Iface struct {
	T types.Type // nil for the nil interface
	V Value
}

type Closure struct {
	Fn  *ssa.Function
	Env []Value
}

type mapEntry struct {
	K, V Value
}

type Map struct {
	KeyT    types.Type
	Entries []*mapEntry // insertion order; deleted entries are removed
	sticky  []*mapEntry // iteration order fixed for this object (MapOrderSticky)
	id      int
}

type Chan struct {
	abs         *smt.Term // trace mode: abstract channel identified by this term
	Cap         int
	Buf         []Value
	Closed      bool
	id          int
	recvWaiting int // goroutines blocked in a receive (rendezvous on unbuffered channels)
}

type Iter struct {
	// map iteration
	m     *Map
	order []*mapEntry
	// string iteration
	str  Value
	pos  int
	kind int // 0 map, 1 string
}

// RType is the dynamic value behind a reflect.Type interface.
type RType struct{ T types.Type }

// RVal models reflect.Value.
type RVal struct {
	T     types.Type // static type of the value (nil = invalid Value)
	V     Value
	CanIf bool // CanInterface (false for values obtained through unexported fields)
}

var rtypeMarker = types.NewNamed(types.NewTypeName(0, nil, "rtype", nil), types.NewStruct(nil, nil), nil)

// ---- helpers ----

func isNilPtr(v Value) bool {
	p, ok := v.(*Value)
	return ok && p == nil
}

func strBytes(v Value) []*smt.Term {
	switch s := v.(type) {
	case string:
		b := make([]*smt.Term, len(s))
		for i := 0; i < len(s); i++ {
			b[i] = byteConst[s[i]]
		}
		return b
	case *SymStr:
		return s.B
	}
	panic(fmt.Sprintf("strBytes: not a string: %T", v))
}

var byteConst [256]*smt.Term

func init() {
	for i := range byteConst {
		byteConst[i] = smt.BVC(8, uint64(i))
	}
}

func mkStr(b []*smt.Term) Value {
	for _, t := range b {
		if !t.IsConst() {
			return &SymStr{B: b}
		}
	}
	var sb strings.Builder
	for _, t := range b {
		sb.WriteByte(byte(t.C))
	}
	return sb.String()
}

func isOpaque(v Value) bool {
	s, ok := v.(*SymStr)
	return ok && s.Opaque
}

func strLen(v Value) int {
	switch s := v.(type) {
	case string:
		return len(s)
	case *SymStr:
		return len(s.B)
	}
	panic(fmt.Sprintf("strLen: not a string: %T", v))
}

// describe renders a value for diagnostics.
func describe(v Value) string {
	switch x := v.(type) {
	case nil:
		return "<nil>"
	case *smt.Term:
		if x.IsConst() {
			switch x.S.K {
			case smt.KBool:
				return fmt.Sprint(x.C == 1)
			case smt.KBV:
				return fmt.Sprint(x.SInt())
			default:
				return fmt.Sprint(x.Float())
			}
		}
		return "<sym>"
	case string:
		return fmt.Sprintf("%q", x)
	case *SymStr:
		if x.Opaque {
			return "<opaque string " + x.Note + ">"
		}
		return fmt.Sprintf("<symstr len=%d>", len(x.B))
	case Iface:
		if x.T == nil {
			return "nil"
		}
		return fmt.Sprintf("%s(%s)", x.T, describe(x.V))
	case *Value:
		if x == nil {
			return "nil-ptr"
		}
		return "&" + describe(*x)
	case Struct:
		var parts []string
		for _, f := range x {
			parts = append(parts, describe(f))
		}
		return "{" + strings.Join(parts, ",") + "}"
	case Slice:
		var parts []string
		for _, f := range x {
			parts = append(parts, describe(f))
		}
		return "[" + strings.Join(parts, ",") + "]"
	}
	return fmt.Sprintf("<%T>", v)
}
