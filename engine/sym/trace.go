package sym

import (
	"fmt"
	"go/types"
	"strings"

	"golang.org/x/tools/go/ssa"

	"verif/engine/smt"
)

// Trace mode (Engine B front end).  The harness is executed by the ordinary
// symbolic executor, but after vf.TraceStart every *visible* operation of the
// explored thread - mutex, channel, WaitGroup operations, loads and stores of
// shared cells, operations on shared sequences, harness marks - is recorded as
// an event instead of being performed, and every value read from shared state
// is a fresh variable.  Exploring all paths of one thread yields its event tree
// (control flow between events is decided by branches on the read variables);
// the trees of all threads are the transition system the BMC back end unrolls
// with a symbolic schedule.  The trees are regenerated from /repo's SSA on every run.

const regW = 8 // width of every BMC state variable / read variable

type TraceEvent struct {
	Kind  string      `json:"kind"`
	Obj   *smt.Term   `json:"-"` // object id (mutex, channel, sequence, cell, wait group, slot)
	Args  []*smt.Term `json:"-"`
	Res   []*smt.Term `json:"-"` // read variables defined by this event
	Label string      `json:"label,omitempty"`
	Pre   []*smt.Term `json:"-"` // conditions decided since the previous event
	Locks []int       `json:"locks,omitempty"`
	Text  string      `json:"text,omitempty"`
}

type absObj struct {
	kind string // "seq"
	id   *smt.Term
}

type cellInfo struct {
	id   int
	kind string // "chan", "seq", "int"
	dynT types.Type
	w    int
}

type chanInit struct {
	Count, Cap int
	Closed     bool
}

type spawnedThread struct {
	fn      Value
	args    []Value
	harness bool // started by vf.Go (a harness thread), not by a go statement of the code under test
}

type Tracer struct {
	Thread    int // index of the thread whose tree is explored in this run (0 = main)
	MaxEvents int
	started   bool
	recording bool
	threads   []spawnedThread
	events    []TraceEvent
	pre       []*smt.Term
	nvar      int
	tag       string // suffix that makes register names of different events at one position distinct
	lastEv    int
	held      []int
	rheld     []int // RWMutexes held for reading
	inSummary bool

	mutexID map[*Value]int
	cellID  map[*Value]*cellInfo
	chanID  map[*Chan]int
	seqID   map[*Value]int
	wgID    map[*Value]int
	slotID  map[string]int

	// initial abstract state (snapshot at TraceStart)
	Chans    []chanInit
	Seqs     [][]int64
	Cells    []int64 // initial object id (or value) of every shared cell
	CellK    []string
	WGs      []int
	NMutex   int
	Slots    []string
	NThreads int
	Helpers  []int // thread ids of goroutines started by the code under test
}

func newTracer(thread, maxEvents int) *Tracer {
	return &Tracer{Thread: thread, MaxEvents: maxEvents, mutexID: map[*Value]int{}, cellID: map[*Value]*cellInfo{}, chanID: map[*Chan]int{},
		seqID: map[*Value]int{}, wgID: map[*Value]int{}, slotID: map[string]int{}}
}

func rc(v uint64) *smt.Term { return smt.BVC(regW, v) }

func (ex *Exec) trOn() bool { return ex.tr != nil && ex.tr.recording && !ex.tr.inSummary }

// fresh names a read variable by thread, event position and index within the event, so that
// paths sharing a prefix of events use the same names.
func (tr *Tracer) fresh(ex *Exec, w int) *smt.Term {
	if tr.lastEv != len(tr.events) {
		tr.lastEv, tr.nvar = len(tr.events), 0
	}
	tr.nvar++
	return ex.P.newInput(fmt.Sprintf("T%d.e%d.%d%sw%d", tr.Thread, len(tr.events), tr.nvar, tr.tag, w), smt.BV(w))
}

func (tr *Tracer) emit(ex *Exec, e TraceEvent) {
	e.Pre = tr.pre
	tr.pre = nil
	e.Locks = append([]int(nil), tr.held...)
	switch e.Kind {
	case "load", "seqlen", "seqsnap", "seqget", "len":
		// a read lock of a RWMutex protects reads only
		e.Locks = append(e.Locks, tr.rheld...)
	}
	tr.events = append(tr.events, e)
	if len(tr.events) > tr.MaxEvents {
		tr.events = append(tr.events, TraceEvent{Kind: "cutoff"})
		panic(pathEnd{"trace-done"})
	}
}

// ---- registration (setup phase) ----

func (ex *Exec) trShare(v Value) {
	tr := ex.tr
	itf, ok := v.(Iface)
	if !ok || itf.T == nil {
		ex.abort("vf.Share: not a collection")
	}
	p, ok := itf.V.(*Value)
	if !ok || p == nil {
		ex.abort("vf.Share: not a pointer to a struct")
	}
	st, ok := (*p).(Struct)
	if !ok {
		ex.abort("vf.Share: not a pointer to a struct")
	}
	pt, ok := itf.T.Underlying().(*types.Pointer)
	if !ok {
		ex.abort("vf.Share: dynamic type is not a pointer")
	}
	stT := pt.Elem().Underlying().(*types.Struct)
	for i := range st {
		ft := stT.Field(i).Type()
		cell := &st[i]
		switch u := ft.Underlying().(type) {
		case *types.Chan:
			c, _ := st[i].(*Chan)
			if c == nil {
				continue
			}
			id := tr.regChan(c)
			tr.cellID[cell] = &cellInfo{id: len(tr.Cells), kind: "chan"}
			tr.Cells = append(tr.Cells, int64(id))
			tr.CellK = append(tr.CellK, "chan")
		case *types.Interface:
			inner, ok := st[i].(Iface)
			if !ok || inner.T == nil || u.NumMethods() == 0 {
				continue
			}
			if !hasMethod(inner.T, "AppendValue") || !hasMethod(inner.T, "RemoveValue") {
				continue // not a sequence-like member (e.g. the class reference)
			}
			lp, ok := inner.V.(*Value)
			if !ok {
				continue
			}
			id := ex.trRegSeq(inner, lp)
			tr.cellID[cell] = &cellInfo{id: len(tr.Cells), kind: "seq", dynT: inner.T}
			tr.Cells = append(tr.Cells, int64(id))
			tr.CellK = append(tr.CellK, "seq")
		case *types.Struct:
			if isNamed(ft, "sync", "Mutex") || isNamed(ft, "sync", "RWMutex") {
				tr.mutexID[cell] = tr.NMutex
				tr.NMutex++
			}
		}
	}
}

func hasMethod(t types.Type, name string) bool {
	ms := types.NewMethodSet(t)
	for i := 0; i < ms.Len(); i++ {
		if ms.At(i).Obj().Name() == name {
			return true
		}
	}
	return false
}

func (tr *Tracer) regChan(c *Chan) int {
	if id, ok := tr.chanID[c]; ok {
		return id
	}
	id := len(tr.Chans)
	tr.chanID[c] = id
	tr.Chans = append(tr.Chans, chanInit{Count: len(c.Buf), Cap: c.Cap, Closed: c.Closed})
	return id
}

// trRegSeq registers a concrete list object as an abstract sequence with its current contents.
func (ex *Exec) trRegSeq(itf Iface, lp *Value) int {
	tr := ex.tr
	if id, ok := tr.seqID[lp]; ok {
		return id
	}
	f := ex.Pr.Prog.LookupMethod(itf.T, nil, "AsArray")
	if f == nil {
		ex.abort("shared sequence has no AsArray")
	}
	arr, _ := ex.call(nil, f, []Value{lp}).(Slice)
	var init []int64
	for _, x := range arr {
		t, ok := x.(*smt.Term)
		if !ok || !t.IsConst() {
			ex.abort("shared sequence must initially hold concrete integers")
		}
		init = append(init, t.SInt())
	}
	id := len(tr.Seqs)
	tr.seqID[lp] = id
	tr.Seqs = append(tr.Seqs, init)
	return id
}

func (ex *Exec) trShareWG(p *Value) {
	tr := ex.tr
	if _, ok := tr.wgID[p]; ok {
		return
	}
	tr.wgID[p] = len(tr.WGs)
	tr.WGs = append(tr.WGs, *ex.wgCounter(p))
}

func (tr *Tracer) slot(name string) int {
	if id, ok := tr.slotID[name]; ok {
		return id
	}
	id := len(tr.Slots)
	tr.slotID[name] = id
	tr.Slots = append(tr.Slots, name)
	return id
}

// trStart: end of the setup phase.
func (ex *Exec) trStart() {
	tr := ex.tr
	tr.started = true
	// refresh the snapshot of wait groups and channels (setup code may have used them)
	for p, id := range tr.wgID {
		tr.WGs[id] = *ex.wgCounter(p)
	}
	for c, id := range tr.chanID {
		tr.Chans[id] = chanInit{Count: len(c.Buf), Cap: c.Cap, Closed: c.Closed}
	}
	tr.NThreads = len(tr.threads) + 1
	if tr.Thread == 0 {
		tr.recording = true
	}
}

// trWaitAll: main waits for every other thread.
func (ex *Exec) trWaitAll() {
	tr := ex.tr
	if tr.Thread == 0 {
		tr.emit(ex, TraceEvent{Kind: "waitall"})
		return
	}
	// explore the chosen thread instead of the rest of main
	if tr.Thread-1 >= len(tr.threads) {
		panic(pathEnd{"trace-done"})
	}
	th := tr.threads[tr.Thread-1]
	tr.recording = true
	func() {
		defer func() {
			if r := recover(); r != nil {
				if gp, ok := r.(*goPanic); ok {
					tr.emit(ex, TraceEvent{Kind: "panic", Text: gp.Msg})
					return
				}
				panic(r)
			}
		}()
		ex.call(nil, th.fn, th.args)
		tr.emit(ex, TraceEvent{Kind: "done"})
	}()
	tr.recording = false
	panic(pathEnd{"trace-done"})
}

// ---- object references ----

func (ex *Exec) trChanRef(c *Chan) *smt.Term {
	if c == nil {
		ex.abort("nil channel in traced code")
	}
	if c.abs != nil {
		return c.abs
	}
	if id, ok := ex.tr.chanID[c]; ok {
		return rc(uint64(id))
	}
	ex.abort("channel that was not shared before vf.TraceStart is used by traced code")
	return nil
}

func wide(t *smt.Term) *smt.Term { return smt.Resize(t, 64, false) }
func narrow(t *smt.Term) *smt.Term {
	if t.S.K == smt.KBool {
		return smt.Ite(t, rc(1), rc(0))
	}
	return smt.Resize(t, regW, false)
}

// ---- hooks called by the executor ----

func (ex *Exec) trLock(p *Value) bool {
	id, ok := ex.tr.mutexID[p]
	if !ok {
		return false // a lock that is not part of the shared objects (class registries): executed concretely
	}
	ex.tr.emit(ex, TraceEvent{Kind: "lock", Obj: rc(uint64(id))})
	ex.tr.held = append(ex.tr.held, id)
	return true
}

func (ex *Exec) trUnlock(p *Value) bool {
	id, ok := ex.tr.mutexID[p]
	if !ok {
		return false
	}
	ex.tr.emit(ex, TraceEvent{Kind: "unlock", Obj: rc(uint64(id))})
	h := ex.tr.held
	for i := len(h) - 1; i >= 0; i-- {
		if h[i] == id {
			ex.tr.held = append(h[:i:i], h[i+1:]...)
			break
		}
	}
	return true
}

func (ex *Exec) trRLock(p *Value) bool {
	id, ok := ex.tr.mutexID[p]
	if !ok {
		return false
	}
	ex.tr.emit(ex, TraceEvent{Kind: "rlock", Obj: rc(uint64(id))})
	ex.tr.rheld = append(ex.tr.rheld, id)
	return true
}

func (ex *Exec) trRUnlock(p *Value) bool {
	id, ok := ex.tr.mutexID[p]
	if !ok {
		return false
	}
	ex.tr.emit(ex, TraceEvent{Kind: "runlock", Obj: rc(uint64(id))})
	h := ex.tr.rheld
	for i := len(h) - 1; i >= 0; i-- {
		if h[i] == id {
			ex.tr.rheld = append(h[:i:i], h[i+1:]...)
			break
		}
	}
	return true
}

func (ex *Exec) trLoad(addr *Value) (Value, bool) {
	ci, ok := ex.tr.cellID[addr]
	if !ok {
		return nil, false
	}
	ex.tr.tag = fmt.Sprintf("c%d", ci.id)
	r := ex.tr.fresh(ex, regW)
	ex.tr.tag = ""
	ex.tr.emit(ex, TraceEvent{Kind: "load", Obj: rc(uint64(ci.id)), Res: []*smt.Term{r}})
	switch ci.kind {
	case "chan":
		return &Chan{abs: r}, true
	case "seq":
		return Iface{T: ci.dynT, V: &absObj{kind: "seq", id: r}}, true
	}
	return wide(r), true
}

func (ex *Exec) trStore(addr *Value, v Value) bool {
	ci, ok := ex.tr.cellID[addr]
	if !ok {
		return false
	}
	var val *smt.Term
	switch ci.kind {
	case "chan":
		val = ex.trChanRef(v.(*Chan))
	case "seq":
		itf := v.(Iface)
		switch o := itf.V.(type) {
		case *absObj:
			val = o.id
		case *Value:
			if id, ok := ex.tr.seqID[o]; ok {
				val = rc(uint64(id))
			} else {
				// a list created by the traced code: allocate a fresh abstract sequence with its contents
				f := ex.Pr.Prog.LookupMethod(itf.T, nil, "AsArray")
				ex.tr.inSummary = true
				arr, _ := ex.call(nil, f, []Value{o}).(Slice)
				ex.tr.inSummary = false
				var args []*smt.Term
				for _, x := range arr {
					args = append(args, narrow(x.(*smt.Term)))
				}
				r := ex.tr.fresh(ex, regW)
				ex.tr.emit(ex, TraceEvent{Kind: "seqnew", Args: args, Res: []*smt.Term{r}})
				val = r
			}
		}
	default:
		val = narrow(v.(*smt.Term))
	}
	ex.tr.emit(ex, TraceEvent{Kind: "store", Obj: rc(uint64(ci.id)), Args: []*smt.Term{val}})
	return true
}

// trCall intercepts method calls on shared sequences (summaries: abstract sequence, see C01).
func (ex *Exec) trCall(fn *ssa.Function, args []Value) (Value, bool) {
	if len(args) == 0 || fn.Signature.Recv() == nil {
		return nil, false
	}
	var id *smt.Term
	switch r := args[0].(type) {
	case *absObj:
		id = r.id
	case *Value:
		if k, ok := ex.tr.seqID[r]; ok {
			id = rc(uint64(k))
		}
	}
	if id == nil {
		return nil, false
	}
	tr := ex.tr
	mname := fn.Name()
	if i := strings.IndexByte(mname, '['); i > 0 {
		mname = mname[:i]
	}
	switch mname {
	case "AppendValue":
		tr.emit(ex, TraceEvent{Kind: "seqappend", Obj: id, Args: []*smt.Term{narrow(args[1].(*smt.Term))}})
		return nil, true
	case "RemoveValue":
		r := tr.fresh(ex, regW)
		tr.emit(ex, TraceEvent{Kind: "seqremove", Obj: id, Args: []*smt.Term{narrow(args[1].(*smt.Term))}, Res: []*smt.Term{r}})
		return wide(r), true
	case "GetValue":
		r := tr.fresh(ex, regW)
		tr.emit(ex, TraceEvent{Kind: "seqget", Obj: id, Args: []*smt.Term{narrow(args[1].(*smt.Term))}, Res: []*smt.Term{r}})
		return wide(r), true
	case "RemoveAll":
		tr.emit(ex, TraceEvent{Kind: "seqclear", Obj: id})
		return nil, true
	case "GetSize":
		r := tr.fresh(ex, regW)
		tr.emit(ex, TraceEvent{Kind: "seqlen", Obj: id, Res: []*smt.Term{r}})
		return wide(r), true
	case "IsEmpty":
		r := tr.fresh(ex, regW)
		tr.emit(ex, TraceEvent{Kind: "seqlen", Obj: id, Res: []*smt.Term{r}})
		return smt.Eq(r, rc(0)), true
	case "AsArray":
		n := tr.fresh(ex, regW)
		res := []*smt.Term{n}
		for i := 0; i < ex.tr.maxSeq(); i++ {
			res = append(res, tr.fresh(ex, regW))
		}
		tr.emit(ex, TraceEvent{Kind: "seqsnap", Obj: id, Res: res})
		k, ok := ex.P.concretize(n, 0, int64(ex.tr.maxSeq()), false)
		if !ok {
			panic(pathEnd{"assume-false"})
		}
		out := make(Slice, k)
		for i := range out {
			out[i] = wide(res[1+i])
		}
		return out, true
	}
	ex.abort("method %s on a shared sequence has no summary", mname)
	return nil, false
}

func (tr *Tracer) maxSeq() int { return 4 }

func (ex *Exec) trSend(c *Chan) {
	ex.tr.emit(ex, TraceEvent{Kind: "send", Obj: ex.trChanRef(c)})
}

func (ex *Exec) trRecv(c *Chan, commaOk bool, elem types.Type) Value {
	ok := ex.tr.fresh(ex, 1)
	ex.tr.emit(ex, TraceEvent{Kind: "recv", Obj: ex.trChanRef(c), Res: []*smt.Term{ok}})
	okb := smt.Eq(ok, smt.BVC(1, 1))
	var v Value
	if b, isB := elem.Underlying().(*types.Basic); isB && b.Kind() == types.Bool {
		v = okb // tokens are `true`; a closed channel yields false
	} else {
		ex.abort("traced receive on a channel of %v (only token channels are modelled)", elem)
	}
	if commaOk {
		return Tuple{v, okb}
	}
	return v
}

func (ex *Exec) trSpawn(fn Value, args []Value) {
	tr := ex.tr
	if tr.started {
		ex.abort("goroutines must be created before vf.TraceStart in a traced harness")
	}
	tr.threads = append(tr.threads, spawnedThread{fn, args, ex.spawningHarness})
	if !ex.spawningHarness {
		tr.Helpers = append(tr.Helpers, len(tr.threads))
	}
}

// EventString renders an event for diagnostics.
func EventString(e TraceEvent) string {
	t := func(x *smt.Term) string {
		if x == nil {
			return "-"
		}
		return smt.Show(x)
	}
	s := e.Kind
	if e.Obj != nil {
		s += " obj=" + t(e.Obj)
	}
	for _, a := range e.Args {
		s += " arg=" + t(a)
	}
	for _, r := range e.Res {
		s += " -> " + t(r)
	}
	if e.Label != "" {
		s += " [" + e.Label + "]"
	}
	if e.Text != "" {
		s += " \"" + e.Text + "\""
	}
	for _, c := range e.Pre {
		s = "{" + t(c) + "} " + s
	}
	if len(e.Locks) > 0 {
		s += fmt.Sprintf(" locks=%v", e.Locks)
	}
	return s
}
