package sym

import (
	"verif/engine/smt"
)

// AccessLog records heap accesses with the tag set by the harness (vf.Track), the
// accessing goroutine and its lockset (C19).
type AccessLog struct {
	Entries []Access
	tag     int
}

type Access struct {
	Addr  interface{}
	Write bool
	Tag   int
	G     int
	Locks []*Value
	Fn    string
}

func (l *AccessLog) note(ex *Exec, addr *Value, write bool) {
	if l.tag == 0 && ex.cur.id == 0 {
		return
	}
	l.Entries = append(l.Entries, Access{Addr: addr, Write: write, Tag: l.tag, G: ex.cur.id, Locks: ex.lockset(write), Fn: ex.topFn()})
}

func (l *AccessLog) noteObj(ex *Exec, obj interface{}, write bool) {
	if l.tag == 0 && ex.cur.id == 0 {
		return
	}
	l.Entries = append(l.Entries, Access{Addr: obj, Write: write, Tag: l.tag, G: ex.cur.id, Locks: ex.lockset(write), Fn: ex.topFn()})
}

func (ex *Exec) topFn() string {
	if n := len(ex.callStack); n > 0 {
		return ex.callStack[n-1].String()
	}
	return ""
}

// conflicts lists locations accessed by two different parties (tags when byTag,
// goroutines otherwise), at least once for writing, with no lock in common.
func (l *AccessLog) conflicts(byTag bool) []string {
	type acc struct {
		a Access
	}
	byAddr := map[interface{}][]Access{}
	for _, e := range l.Entries {
		byAddr[e.Addr] = append(byAddr[e.Addr], e)
	}
	var out []string
	seen := map[string]bool{}
	for _, es := range byAddr {
		for i := 0; i < len(es); i++ {
			for j := i + 1; j < len(es); j++ {
				x, y := es[i], es[j]
				px, py := x.G, y.G
				if byTag {
					px, py = x.Tag, y.Tag
					if px == 0 || py == 0 {
						continue
					}
				}
				if px == py || (!x.Write && !y.Write) {
					continue
				}
				common := false
				for _, a := range x.Locks {
					for _, b := range y.Locks {
						if a == b {
							common = true
						}
					}
				}
				if common {
					continue
				}
				d := x.Fn + " <-> " + y.Fn
				if !seen[d] {
					seen[d] = true
					out = append(out, d)
				}
			}
		}
	}
	return out
}

// cmplx.Abs / Phase: uninterpreted over the bit patterns, constrained by the
// documented special cases of math.Hypot and math.Atan2.
func (ex *Exec) cmplxAbs(c Cplx) Value {
	re, im := smt.FPConv(c.Re, 64), smt.FPConv(c.Im, 64)
	if re.IsConst() && im.IsConst() {
		return smt.FPC64(hypot(re.Float(), im.Float()))
	}
	ex.abort("cmplx.Abs on symbolic operands is not modelled yet")
	return nil
}

func (ex *Exec) cmplxPhase(c Cplx) Value {
	re, im := smt.FPConv(c.Re, 64), smt.FPConv(c.Im, 64)
	if re.IsConst() && im.IsConst() {
		return smt.FPC64(atan2(im.Float(), re.Float()))
	}
	ex.abort("cmplx.Phase on symbolic operands is not modelled yet")
	return nil
}

// lockset: the locks that protect an access made now.  A read lock of a RWMutex protects reads only.
func (ex *Exec) lockset(write bool) []*Value {
	ls := append([]*Value(nil), ex.cur.held...)
	if !write {
		ls = append(ls, ex.cur.rheld...)
	}
	return ls
}
