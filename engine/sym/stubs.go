package sym

import (
	"verif/engine/smt"
)

// AccessLog records heap accesses with the lockset of the accessing goroutine (C19).
type AccessLog struct {
	Entries []Access
	tag     int
}

type Access struct {
	Addr  interface{}
	Write bool
	Tag   int
	Locks []*Value
	Where string
}

func (l *AccessLog) note(ex *Exec, addr *Value, write bool) {
	l.Entries = append(l.Entries, Access{Addr: addr, Write: write, Tag: l.tag, Locks: append([]*Value(nil), ex.cur.held...)})
}

func (l *AccessLog) noteObj(ex *Exec, obj interface{}, write bool) {
	l.Entries = append(l.Entries, Access{Addr: obj, Write: write, Tag: l.tag, Locks: append([]*Value(nil), ex.cur.held...)})
}

// cmplx.Abs / Phase: uninterpreted over the bit patterns, constrained by the
// documented special cases of math.Hypot and math.Atan2.
func (ex *Exec) cmplxAbs(c Cplx) Value {
	re, im := smt.FPConv(c.Re, 64), smt.FPConv(c.Im, 64)
	if re.IsConst() && im.IsConst() {
		return smt.FPC64(hypot(re.Float(), im.Float()))
	}
	ex.abort("cmplx.Abs on symbolic operands is not modelled yet")
	return nil
}

func (ex *Exec) cmplxPhase(c Cplx) Value {
	re, im := smt.FPConv(c.Re, 64), smt.FPConv(c.Im, 64)
	if re.IsConst() && im.IsConst() {
		return smt.FPC64(atan2(im.Float(), re.Float()))
	}
	ex.abort("cmplx.Phase on symbolic operands is not modelled yet")
	return nil
}
