package sym

import (
	"fmt"
	"go/token"
	"go/types"
	"strings"

	"golang.org/x/tools/go/ssa"

	"verif/engine/smt"
)

// goPanic is a panic of the *target* program.
type goPanic struct {
	V       Value  // the panic value (an Iface)
	Runtime bool   // a Go run-time error (nil dereference, index out of range, ...)
	Msg     string // text for diagnostics
}

// abortPath ends the path because the engine cannot continue soundly.
type abortPath struct{ reason string }

type deferred struct {
	fn   Value
	args []Value
}

type frame struct {
	ex        *Exec
	caller    *frame
	fn        *ssa.Function
	block     *ssa.BasicBlock
	prev      *ssa.BasicBlock
	env       map[ssa.Value]Value
	defers    []*deferred
	result    Value
	panicking bool
	panicV    *goPanic
	g         *G
}

// Exec is the per-path interpreter state.
type Exec struct {
	Pr       *Program
	P        *Path
	globals  map[*ssa.Global]*Value
	Steps    int
	MaxSteps int
	Depth    int
	MaxDepth int
	MaxMake  int

	mutexes  map[*Value]*mutexSt
	builders map[*Value]*[]*smt.Term
	wgs      map[*Value]*int
	inited   map[*ssa.Package]bool
	Funcs    map[string]int
	Stubs    map[string]int
	objID    int

	gs              []*G
	cur             *G
	aborted         bool
	objIDs          map[interface{}]uint64 // reflect.Value.Pointer identities
	spawningHarness bool                   // the goroutine being created is a harness thread (vf.Go)

	rx map[*Value]*rxProg // compiled regexps by *regexp.Regexp pointer

	MapOrderMax    int  // enumerate all iteration orders up to this map size
	MapOrderSticky bool // one (chosen) iteration order per map object until it is mutated
	SchedChoice    bool // explore interleavings at synchronisation operations
	tr             *Tracer
	clock          int
	slots          map[string]*smt.Term
	MaxSchedPoints int
	schedPoints    int
	inYield        bool
	fatalEv        *fatalInfo
	callStack      []*ssa.Function
	initRunning    map[*ssa.Package]bool
	lastInstr      ssa.Instruction
	fatalEnd       interface{}
	baseMaxSteps   int
	accessLog      *AccessLog
	depthHigh      int
}

func (ex *Exec) abort(format string, args ...interface{}) {
	panic(abortPath{fmt.Sprintf(format, args...)})
}

func (ex *Exec) rtPanic(msg string) {
	panic(&goPanic{V: Iface{T: types.Typ[types.String], V: "runtime error: " + msg}, Runtime: true, Msg: "runtime error: " + msg})
}

// ---- zero values ----

func isReflectValue(t types.Type) bool {
	n, ok := t.(*types.Named)
	return ok && n.Obj().Pkg() != nil && n.Obj().Pkg().Path() == "reflect" && n.Obj().Name() == "Value"
}

func basicSort(b *types.Basic) (smt.Sort, bool) {
	switch b.Kind() {
	case types.Bool, types.UntypedBool:
		return smt.Bool, true
	case types.Int8, types.Uint8:
		return smt.BV(8), true
	case types.Int16, types.Uint16:
		return smt.BV(16), true
	case types.Int32, types.Uint32, types.UntypedRune:
		return smt.BV(32), true
	case types.Int, types.Uint, types.Int64, types.Uint64, types.Uintptr, types.UntypedInt:
		return smt.BV(64), true
	case types.Float32:
		return smt.FP(32), true
	case types.Float64, types.UntypedFloat:
		return smt.FP(64), true
	}
	return smt.Sort{}, false
}

func isSigned(t types.Type) bool {
	b, ok := t.Underlying().(*types.Basic)
	return ok && b.Info()&types.IsInteger != 0 && b.Info()&types.IsUnsigned == 0
}

func zero(t types.Type) Value {
	if isReflectValue(t) {
		return &RVal{}
	}
	switch u := t.Underlying().(type) {
	case *types.Basic:
		if s, ok := basicSort(u); ok {
			switch s.K {
			case smt.KBool:
				return smt.False
			case smt.KBV:
				return smt.BVC(s.W, 0)
			default:
				return smt.FPBits(s.W, 0)
			}
		}
		switch u.Kind() {
		case types.String, types.UntypedString:
			return ""
		case types.Complex64:
			return Cplx{smt.FPBits(32, 0), smt.FPBits(32, 0)}
		case types.Complex128, types.UntypedComplex:
			return Cplx{smt.FPBits(64, 0), smt.FPBits(64, 0)}
		case types.UnsafePointer:
			return (*Value)(nil)
		case types.UntypedNil:
			return Iface{}
		}
		panic("zero: basic " + u.String())
	case *types.Pointer:
		return (*Value)(nil)
	case *types.Slice:
		return Slice(nil)
	case *types.Map:
		return (*Map)(nil)
	case *types.Chan:
		return (*Chan)(nil)
	case *types.Signature:
		return (*ssa.Function)(nil)
	case *types.Interface:
		return Iface{}
	case *types.Struct:
		s := make(Struct, u.NumFields())
		for i := range s {
			s[i] = zero(u.Field(i).Type())
		}
		return s
	case *types.Array:
		a := make(Array, u.Len())
		for i := range a {
			a[i] = zero(u.Elem())
		}
		return a
	case *types.Tuple:
		tu := make(Tuple, u.Len())
		for i := range tu {
			tu[i] = zero(u.At(i).Type())
		}
		return tu
	}
	panic(fmt.Sprintf("zero: unsupported type %v (%T)", t, t.Underlying()))
}

// copyVal copies aggregates so that loads and stores have value semantics.
func copyVal(v Value) Value {
	switch x := v.(type) {
	case Struct:
		c := make(Struct, len(x))
		for i := range x {
			c[i] = copyVal(x[i])
		}
		return c
	case Array:
		c := make(Array, len(x))
		for i := range x {
			c[i] = copyVal(x[i])
		}
		return c
	}
	return v
}

func (ex *Exec) load(addr *Value) Value {
	if addr == nil {
		ex.rtPanic("invalid memory address or nil pointer dereference")
	}
	if ex.accessLog != nil {
		ex.accessLog.note(ex, addr, false)
	}
	if ex.tr != nil && ex.trOn() {
		if v, ok := ex.trLoad(addr); ok {
			return v
		}
	}
	return copyVal(*addr)
}

func storeInto(addr *Value, v Value) {
	switch lhs := (*addr).(type) {
	case Struct:
		rhs := v.(Struct)
		for i := range lhs {
			storeInto(&lhs[i], rhs[i])
		}
	case Array:
		rhs := v.(Array)
		for i := range lhs {
			storeInto(&lhs[i], rhs[i])
		}
	default:
		*addr = v
	}
}

func (ex *Exec) store(addr *Value, v Value) {
	if addr == nil {
		ex.rtPanic("invalid memory address or nil pointer dereference")
	}
	if ex.accessLog != nil {
		ex.accessLog.note(ex, addr, true)
	}
	if ex.tr != nil && ex.trOn() && ex.trStore(addr, v) {
		return
	}
	storeInto(addr, v)
}

// ---- constants ----

func constValue(c *ssa.Const) Value {
	if c.Value == nil {
		return zero(c.Type())
	}
	t := c.Type().Underlying()
	if b, ok := t.(*types.Basic); ok {
		if s, ok := basicSort(b); ok {
			switch s.K {
			case smt.KBool:
				return smt.BoolC(constBool(c))
			case smt.KBV:
				if b.Info()&types.IsUnsigned != 0 {
					return smt.BVC(s.W, c.Uint64())
				}
				return smt.BVC(s.W, uint64(c.Int64()))
			default:
				if s.W == 32 {
					return smt.FPC32(float32(c.Float64()))
				}
				return smt.FPC64(c.Float64())
			}
		}
		switch b.Kind() {
		case types.String, types.UntypedString:
			return constString(c)
		case types.Complex64:
			z := c.Complex128()
			return Cplx{smt.FPC32(float32(real(z))), smt.FPC32(float32(imag(z)))}
		case types.Complex128, types.UntypedComplex:
			z := c.Complex128()
			return Cplx{smt.FPC64(real(z)), smt.FPC64(imag(z))}
		}
	}
	panic(fmt.Sprintf("constValue: %v", c))
}

// ---- frame ----

func (fr *frame) get(key ssa.Value) Value {
	switch key := key.(type) {
	case nil:
		return nil
	case *ssa.Function, *ssa.Builtin:
		return key
	case *ssa.Const:
		return constValue(key)
	case *ssa.Global:
		return fr.ex.global(key)
	}
	if r, ok := fr.env[key]; ok {
		return r
	}
	panic(fmt.Sprintf("get: no value for %T: %v in %v", key, key.Name(), fr.fn))
}

func (ex *Exec) global(g *ssa.Global) *Value {
	if r, ok := ex.globals[g]; ok {
		return r
	}
	ex.ensureInit(g.Pkg)
	if r, ok := ex.globals[g]; ok {
		return r
	}
	cell := zero(deref(g.Type()))
	ex.globals[g] = &cell
	return &cell
}

func deref(t types.Type) types.Type {
	if p, ok := t.Underlying().(*types.Pointer); ok {
		return p.Elem()
	}
	panic("deref: not a pointer: " + t.String())
}

// ensureInit runs the package initializer of a repository package (or of one of
// the few library packages whose tables interpreted code reads) on first use.
func (ex *Exec) ensureInit(pkg *ssa.Package) {
	if pkg == nil || ex.inited[pkg] {
		return
	}
	ex.inited[pkg] = true
	for _, m := range pkg.Members {
		if g, ok := m.(*ssa.Global); ok {
			if _, ok := ex.globals[g]; !ok {
				cell := zero(deref(g.Type()))
				ex.globals[g] = &cell
			}
		}
	}
	path := pkg.Pkg.Path()
	if ex.Pr.isRepoPkg(pkg.Pkg) || initLibs[path] {
		if f := pkg.Func("init"); f != nil && !ex.initRunning[pkg] {
			ex.call(nil, f, nil)
		}
	}
}

var initLibs = map[string]bool{"strconv": true, "unicode/utf8": true, "unicode": true, "math/bits": true, "sort": true, "slices": true}

func (ex *Exec) step(fr *frame) {
	ex.Steps++
	if ex.Steps > ex.MaxSteps {
		panic(pathEnd{"budget"})
	}
	if ex.aborted {
		panic(pathEnd{"aborted"})
	}
}

func (ex *Exec) call(caller *frame, fn Value, args []Value) Value {
	switch fn := fn.(type) {
	case *ssa.Function:
		if fn == nil {
			ex.rtPanic("invalid memory address or nil pointer dereference (call of nil func)")
		}
		return ex.callSSA(caller, fn, args, nil)
	case *Closure:
		if fn == nil {
			ex.rtPanic("invalid memory address or nil pointer dereference (call of nil func)")
		}
		return ex.callSSA(caller, fn.Fn, args, fn.Env)
	case *ssa.Builtin:
		return ex.callBuiltin(caller, fn, args)
	}
	panic(fmt.Sprintf("cannot call %T", fn))
}

func (ex *Exec) callSSA(caller *frame, fn *ssa.Function, args []Value, env []Value) Value {
	if ex.tr != nil && ex.trOn() {
		if r, ok := ex.trCall(fn, args); ok {
			return r
		}
	}
	if fn.Parent() == nil {
		name := fn.String()
		if fn.Name() == "init" && fn.Pkg != nil && fn.Signature.Recv() == nil && fn.Synthetic != "" {
			// package initializer: run it once, and only for the repository and a few pure libraries
			if !ex.Pr.isRepoPkg(fn.Pkg.Pkg) && !initLibs[fn.Pkg.Pkg.Path()] {
				ex.inited[fn.Pkg] = true
				return nil
			}
			if ex.initRunning[fn.Pkg] {
				return nil
			}
			ex.initRunning[fn.Pkg] = true
			ex.inited[fn.Pkg] = true
		}
		if h := intrinsics[name]; h != nil {
			ex.Stubs[name]++
			return h(ex, caller, fn, args)
		}
		if fn.Origin() != nil {
			if h := intrinsics[fn.Origin().String()]; h != nil {
				ex.Stubs[fn.Origin().String()]++
				return h(ex, caller, fn, args)
			}
		}
		if fn.Pkg != nil && strings.HasSuffix(fn.Pkg.Pkg.Path(), "/zzvf") {
			if r, ok := ex.callVF(caller, fn, args); ok {
				return r
			}
		}
		if r, ok := ex.tryNative(fn, args); ok {
			return r
		}
		if fn.Blocks == nil {
			ex.abort("no code for function %s", name)
		}
	}
	if fn.Pkg != nil {
		ex.ensureInit(fn.Pkg)
	}
	if fn.TypeParams().Len() > 0 && len(fn.TypeArgs()) == 0 {
		ex.abort("uninstantiated generic function %s", fn)
	}
	ex.Depth++
	if ex.Depth > ex.depthHigh {
		ex.depthHigh = ex.Depth
	}
	if ex.Depth > ex.MaxDepth {
		panic(pathEnd{"depth"})
	}
	defer func() { ex.Depth-- }()
	ex.Funcs[fn.String()]++
	ex.callStack = append(ex.callStack, fn)
	defer func() { ex.callStack = ex.callStack[:len(ex.callStack)-1] }()

	fr := &frame{ex: ex, caller: caller, fn: fn, env: make(map[ssa.Value]Value, 16)}
	if caller != nil {
		fr.g = caller.g
	} else {
		fr.g = ex.cur
	}
	fr.block = fn.Blocks[0]
	for _, l := range fn.Locals {
		cell := zero(deref(l.Type()))
		fr.env[l] = &cell
	}
	for i, p := range fn.Params {
		fr.env[p] = args[i]
	}
	for i, fv := range fn.FreeVars {
		fr.env[fv] = env[i]
	}
	for fr.block != nil {
		ex.runFrame(fr)
	}
	return fr.result
}

func (ex *Exec) runFrame(fr *frame) {
	defer func() {
		if fr.block == nil {
			return
		}
		r := recover()
		gp, ok := r.(*goPanic)
		if !ok {
			panic(r) // engine-level unwinding (path end, abort, bug)
		}
		fr.panicking = true
		fr.panicV = gp
		fr.runDefers()
		fr.block = fr.fn.Recover
		if fr.block == nil {
			// recovered in a function without a recover block: return zero results
			fr.result = zeroResults(fr.fn)
		}
	}()
	for {
		instrs := fr.block.Instrs
		// phis (parallel assignment)
		n := 0
		for n < len(instrs) {
			if _, ok := instrs[n].(*ssa.Phi); !ok {
				break
			}
			n++
		}
		if n > 0 {
			idx := -1
			for i, p := range fr.block.Preds {
				if p == fr.prev {
					idx = i
					break
				}
			}
			tmp := make([]Value, n)
			for i := 0; i < n; i++ {
				tmp[i] = fr.get(instrs[i].(*ssa.Phi).Edges[idx])
			}
			for i := 0; i < n; i++ {
				fr.env[instrs[i].(*ssa.Phi)] = tmp[i]
			}
		}
		jumped := false
		for _, instr := range instrs[n:] {
			ex.step(fr)
			ex.lastInstr = instr
			switch ex.visit(fr, instr) {
			case kReturn:
				return
			case kJump:
				jumped = true
			}
			if jumped {
				break
			}
		}
	}
}

func zeroResults(fn *ssa.Function) Value {
	res := fn.Signature.Results()
	switch res.Len() {
	case 0:
		return nil
	case 1:
		return zero(res.At(0).Type())
	}
	return zero(res)
}

func (fr *frame) runDefers() {
	for len(fr.defers) > 0 {
		d := fr.defers[len(fr.defers)-1]
		fr.defers = fr.defers[:len(fr.defers)-1]
		func() {
			ok := false
			defer func() {
				if !ok {
					r := recover()
					if gp, isGo := r.(*goPanic); isGo {
						fr.panicking = true
						fr.panicV = gp
					} else {
						panic(r)
					}
				}
			}()
			fr.ex.call(fr, d.fn, d.args)
			ok = true
		}()
	}
	if fr.panicking {
		panic(fr.panicV)
	}
}

const (
	kNext = iota
	kReturn
	kJump
)

func (ex *Exec) prepareCall(fr *frame, call *ssa.CallCommon) (Value, []Value) {
	v := fr.get(call.Value)
	var fn Value
	var args []Value
	if call.Method == nil {
		fn = v
	} else {
		recv := v.(Iface)
		if recv.T == nil {
			ex.rtPanic("invalid memory address or nil pointer dereference (method call on nil interface)")
		}
		if rt, ok := recv.V.(RType); ok && recv.T == rtypeMarker {
			// reflect.Type method on the model
			args = append(args, rt)
			for _, a := range call.Args {
				args = append(args, fr.get(a))
			}
			return &rtypeMethod{name: call.Method.Name()}, args
		}
		if recv.T == nativeErrorType && call.Method.Name() == "Error" {
			return &constFn{recv.V}, nil
		}
		f := ex.Pr.Prog.LookupMethod(recv.T, call.Method.Pkg(), call.Method.Name())
		if f == nil {
			ex.abort("method set of %v has no %s", recv.T, call.Method)
		}
		fn = f
		args = append(args, recv.V)
	}
	for _, a := range call.Args {
		args = append(args, fr.get(a))
	}
	return fn, args
}

type rtypeMethod struct{ name string }

// constFn is a callable that returns a fixed value (Error() of a native error).
type constFn struct{ v Value }

func (ex *Exec) doCall(fr *frame, fn Value, args []Value) Value {
	if m, ok := fn.(*rtypeMethod); ok {
		return ex.rtypeCall(fr, m.name, args)
	}
	if c, ok := fn.(*constFn); ok {
		return c.v
	}
	return ex.call(fr, fn, args)
}

func (ex *Exec) visit(fr *frame, instr ssa.Instruction) int {
	switch instr := instr.(type) {
	case *ssa.DebugRef:

	case *ssa.UnOp:
		fr.env[instr] = ex.unop(fr, instr, fr.get(instr.X))

	case *ssa.BinOp:
		fr.env[instr] = ex.binop(instr.Op, instr.X.Type(), fr.get(instr.X), fr.get(instr.Y))

	case *ssa.Call:
		fn, args := ex.prepareCall(fr, &instr.Call)
		fr.env[instr] = ex.doCall(fr, fn, args)

	case *ssa.ChangeInterface:
		fr.env[instr] = fr.get(instr.X)

	case *ssa.ChangeType:
		fr.env[instr] = fr.get(instr.X)

	case *ssa.Convert:
		fr.env[instr] = ex.conv(instr.Type(), instr.X.Type(), fr.get(instr.X))

	case *ssa.MultiConvert:
		fr.env[instr] = ex.conv(instr.Type(), instr.X.Type(), fr.get(instr.X))

	case *ssa.SliceToArrayPointer:
		ex.abort("SliceToArrayPointer unsupported")

	case *ssa.MakeInterface:
		fr.env[instr] = Iface{T: instr.X.Type(), V: fr.get(instr.X)}

	case *ssa.Extract:
		fr.env[instr] = fr.get(instr.Tuple).(Tuple)[instr.Index]

	case *ssa.Slice:
		fr.env[instr] = ex.slice(instr, fr.get(instr.X), fr.get(instr.Low), fr.get(instr.High), fr.get(instr.Max))

	case *ssa.Return:
		switch len(instr.Results) {
		case 0:
		case 1:
			fr.result = fr.get(instr.Results[0])
		default:
			res := make(Tuple, len(instr.Results))
			for i, r := range instr.Results {
				res[i] = fr.get(r)
			}
			fr.result = res
		}
		fr.block = nil
		return kReturn

	case *ssa.RunDefers:
		fr.runDefers()

	case *ssa.Panic:
		v := fr.get(instr.X)
		gp := &goPanic{V: v, Msg: describe(v)}
		// a recovered run-time error that is passed on with panic(r) is still a run-time error
		if ifc, ok := v.(Iface); ok {
			if str, ok := ifc.V.(string); ok && strings.HasPrefix(str, "runtime error: ") {
				gp.Runtime, gp.Msg = true, str
			}
		}
		panic(gp)

	case *ssa.Send:
		ex.chanSend(fr, fr.get(instr.Chan).(*Chan), fr.get(instr.X))

	case *ssa.Store:
		ex.store(fr.get(instr.Addr).(*Value), copyVal(fr.get(instr.Val)))

	case *ssa.If:
		succ := 1
		if ex.P.branch(fr.get(instr.Cond).(*smt.Term)) {
			succ = 0
		}
		fr.prev, fr.block = fr.block, fr.block.Succs[succ]
		return kJump

	case *ssa.Jump:
		fr.prev, fr.block = fr.block, fr.block.Succs[0]
		return kJump

	case *ssa.Defer:
		fn, args := ex.prepareCall(fr, &instr.Call)
		if _, ok := fn.(*rtypeMethod); ok {
			ex.abort("defer of reflect.Type method")
		}
		fr.defers = append(fr.defers, &deferred{fn: fn, args: args})

	case *ssa.Go:
		fn, args := ex.prepareCall(fr, &instr.Call)
		ex.spawn(fr, fn, args)

	case *ssa.MakeChan:
		if ex.tr != nil && ex.trOn() {
			r := ex.tr.fresh(ex, regW)
			ex.tr.emit(ex, TraceEvent{Kind: "makechan", Args: []*smt.Term{narrow(fr.get(instr.Size).(*smt.Term))}, Res: []*smt.Term{r}})
			fr.env[instr] = &Chan{abs: r}
			break
		}
		n, ok := ex.P.concretize(fr.get(instr.Size).(*smt.Term), 0, int64(ex.MaxMake), true)
		if !ok {
			ex.abort("make(chan) with size outside 0..%d", ex.MaxMake)
		}
		ex.objID++
		fr.env[instr] = &Chan{Cap: int(n), id: ex.objID}

	case *ssa.Alloc:
		cell := zero(deref(instr.Type()))
		if instr.Heap {
			fr.env[instr] = &cell
		} else {
			// re-zero the local
			addr := fr.env[instr].(*Value)
			*addr = cell
		}

	case *ssa.MakeSlice:
		fr.env[instr] = ex.makeSlice(instr.Type(), fr.get(instr.Len).(*smt.Term), fr.get(instr.Cap).(*smt.Term), instr.Len.Type())

	case *ssa.MakeMap:
		ex.objID++
		fr.env[instr] = &Map{KeyT: instr.Type().Underlying().(*types.Map).Key(), id: ex.objID}

	case *ssa.Range:
		fr.env[instr] = ex.rangeIter(fr.get(instr.X), instr.X.Type())

	case *ssa.Next:
		fr.env[instr] = ex.iterNext(fr.get(instr.Iter).(*Iter), instr)

	case *ssa.FieldAddr:
		p := fr.get(instr.X).(*Value)
		if p == nil {
			ex.rtPanic("invalid memory address or nil pointer dereference")
		}
		fr.env[instr] = &(*p).(Struct)[instr.Field]

	case *ssa.Field:
		fr.env[instr] = copyVal(fr.get(instr.X).(Struct)[instr.Field])

	case *ssa.IndexAddr:
		fr.env[instr] = ex.indexAddr(fr.get(instr.X), fr.get(instr.Index).(*smt.Term), isSigned(instr.Index.Type()))

	case *ssa.Index:
		fr.env[instr] = ex.index(fr.get(instr.X), fr.get(instr.Index).(*smt.Term), isSigned(instr.Index.Type()))

	case *ssa.Lookup:
		fr.env[instr] = ex.lookup(instr, fr.get(instr.X), fr.get(instr.Index))

	case *ssa.MapUpdate:
		m := fr.get(instr.Map).(*Map)
		if m == nil {
			panic(&goPanic{V: Iface{T: types.Typ[types.String], V: "assignment to entry in nil map"}, Runtime: true, Msg: "assignment to entry in nil map"})
		}
		ex.mapUpdate(m, fr.get(instr.Key), copyVal(fr.get(instr.Value)))

	case *ssa.TypeAssert:
		fr.env[instr] = ex.typeAssert(instr, fr.get(instr.X).(Iface))

	case *ssa.MakeClosure:
		var bindings []Value
		for _, b := range instr.Bindings {
			bindings = append(bindings, fr.get(b))
		}
		fr.env[instr] = &Closure{instr.Fn.(*ssa.Function), bindings}

	case *ssa.Select:
		ex.abort("select unsupported")

	default:
		panic(fmt.Sprintf("unexpected instruction: %T", instr))
	}
	return kNext
}

// ---- slices, indexing ----

const hugeLen = uint64(1) << 40

func (ex *Exec) makeSlice(t types.Type, ln, cp *smt.Term, lenT types.Type) Value {
	// The run-time check: len out of range (negative or absurdly large) panics.
	n, ok := ex.P.concretize(ln, 0, int64(ex.MaxMake), false)
	if !ok {
		huge := smt.ULe(smt.BVC(ln.S.W, hugeLen), ln)
		if ln.S.W < 64 {
			huge = smt.False
			if isSigned(lenT) {
				huge = smt.SLt(ln, smt.BVC(ln.S.W, 0))
			}
		}
		if ex.P.branch(huge) {
			panic(&goPanic{V: Iface{T: types.Typ[types.String], V: "runtime error: makeslice: len out of range"}, Runtime: true, Msg: "runtime error: makeslice: len out of range"})
		}
		ex.abort("make([]T, n) with n outside 0..%d and below 2^40 (engine size bound)", ex.MaxMake)
	}
	c := n
	if cp != ln {
		cc, ok := ex.P.concretize(cp, 0, int64(ex.MaxMake), false)
		if !ok {
			ex.abort("make([]T, n, c) with c outside bound")
		}
		c = cc
		if c < n {
			ex.rtPanic("makeslice: cap out of range")
		}
	}
	elt := t.Underlying().(*types.Slice).Elem()
	s := make(Slice, c)
	for i := range s {
		s[i] = zero(elt)
	}
	return s[:n]
}

func (ex *Exec) concIndex(idx *smt.Term, n int, signed bool) int {
	if idx.IsConst() {
		var v int64
		if signed {
			v = idx.SInt()
		} else if idx.C >= 1<<62 {
			v = -1
		} else {
			v = int64(idx.C)
		}
		if v < 0 || v >= int64(n) {
			ex.rtPanic(fmt.Sprintf("index out of range [%d] with length %d", v, n))
		}
		return int(v)
	}
	v, ok := ex.P.concretize(idx, 0, int64(n-1), signed)
	if !ok {
		ex.rtPanic(fmt.Sprintf("index out of range [symbolic] with length %d", n))
	}
	return int(v)
}

func (ex *Exec) indexAddr(x Value, idx *smt.Term, signed bool) Value {
	switch x := x.(type) {
	case Slice:
		i := ex.concIndex(idx, len(x), signed)
		return &x[i]
	case *Value:
		if x == nil {
			ex.rtPanic("invalid memory address or nil pointer dereference")
		}
		a := (*x).(Array)
		i := ex.concIndex(idx, len(a), signed)
		return &a[i]
	}
	panic(fmt.Sprintf("indexAddr: %T", x))
}

func (ex *Exec) index(x Value, idx *smt.Term, signed bool) Value {
	switch x := x.(type) {
	case Array:
		i := ex.concIndex(idx, len(x), signed)
		return copyVal(x[i])
	case string:
		i := ex.concIndex(idx, len(x), signed)
		return byteConst[x[i]]
	case *SymStr:
		ex.needClear(x)
		if !idx.IsConst() {
			// ite-chain read avoids forking on the position
			n := len(x.B)
			in := smt.And(smt.SLe(smt.BVC(idx.S.W, 0), idx), smt.SLt(idx, smt.BVC(idx.S.W, uint64(n))))
			if !ex.P.branch(in) {
				ex.rtPanic("index out of range [symbolic] in string")
			}
			r := x.B[n-1]
			for i := n - 2; i >= 0; i-- {
				r = smt.Ite(smt.Eq(idx, smt.BVC(idx.S.W, uint64(i))), x.B[i], r)
			}
			return r
		}
		i := ex.concIndex(idx, len(x.B), signed)
		return x.B[i]
	}
	panic(fmt.Sprintf("index: %T", x))
}

func (ex *Exec) needClear(s *SymStr) {
	if s.Opaque {
		ex.abort("contents of an opaque (symbolically formatted) string are needed: %s", s.Note)
	}
}

func (ex *Exec) concBound(t *smt.Term, max int, what string) int {
	if t == nil {
		return -1
	}
	v, ok := ex.P.concretize(t, 0, int64(max), true)
	if !ok {
		ex.rtPanic("slice bounds out of range (" + what + ")")
	}
	return int(v)
}

func asTerm(v Value) *smt.Term {
	if v == nil {
		return nil
	}
	return v.(*smt.Term)
}

func (ex *Exec) slice(instr *ssa.Slice, x, lo, hi, max Value) Value {
	switch x := x.(type) {
	case string, *SymStr:
		if s, ok := x.(*SymStr); ok {
			ex.needClear(s)
		}
		b := strBytes(x)
		n := len(b)
		l, h := 0, n
		if lo != nil {
			l = ex.concBound(asTerm(lo), n, "low")
		}
		if hi != nil {
			h = ex.concBound(asTerm(hi), n, "high")
		}
		if l > h {
			ex.rtPanic(fmt.Sprintf("slice bounds out of range [%d:%d]", l, h))
		}
		return mkStr(b[l:h])
	case Slice:
		c := cap(x)
		l, h, m := 0, len(x), c
		if max != nil {
			m = ex.concBound(asTerm(max), c, "max")
		}
		if hi != nil {
			h = ex.concBound(asTerm(hi), m, "high")
		}
		if lo != nil {
			l = ex.concBound(asTerm(lo), h, "low")
		}
		if l > h || h > m {
			ex.rtPanic(fmt.Sprintf("slice bounds out of range [%d:%d:%d]", l, h, m))
		}
		if x == nil {
			return Slice(nil)
		}
		return x[l:h:m]
	case *Value:
		if x == nil {
			ex.rtPanic("invalid memory address or nil pointer dereference")
		}
		a := Slice((*x).(Array))
		c := len(a)
		l, h, m := 0, c, c
		if max != nil {
			m = ex.concBound(asTerm(max), c, "max")
		}
		if hi != nil {
			h = ex.concBound(asTerm(hi), m, "high")
		}
		if lo != nil {
			l = ex.concBound(asTerm(lo), h, "low")
		}
		if l > h || h > m {
			ex.rtPanic("slice bounds out of range")
		}
		return a[l:h:m]
	}
	panic(fmt.Sprintf("slice: %T", x))
}

// ---- type assertions ----

func (ex *Exec) typeAssert(instr *ssa.TypeAssert, itf Iface) Value {
	var v Value
	err := ""
	if idst, ok := instr.AssertedType.Underlying().(*types.Interface); ok {
		if itf.T == nil {
			err = fmt.Sprintf("interface conversion: interface is nil, not %s", instr.AssertedType)
		} else if itf.T == rtypeMarker {
			if idst.NumMethods() > 0 && !isNamed(instr.AssertedType, "reflect", "Type") {
				err = "interface conversion on reflect.Type model"
			} else {
				v = itf
			}
		} else if meth, _ := types.MissingMethod(itf.T, idst, true); meth == nil {
			v = itf
		} else {
			err = fmt.Sprintf("interface conversion: %v is not %v: missing method %s", itf.T, instr.AssertedType, meth.Name())
		}
	} else if itf.T != nil && types.Identical(itf.T, instr.AssertedType) {
		v = copyVal(itf.V)
	} else {
		err = fmt.Sprintf("interface conversion: interface is %v, not %v", itf.T, instr.AssertedType)
	}
	if err != "" {
		if !instr.CommaOk {
			panic(&goPanic{V: Iface{T: types.Typ[types.String], V: err}, Runtime: true, Msg: err})
		}
		return Tuple{zero(instr.AssertedType), smt.False}
	}
	if instr.CommaOk {
		return Tuple{v, smt.True}
	}
	return v
}

func isNamed(t types.Type, pkg, name string) bool {
	n, ok := t.(*types.Named)
	return ok && n.Obj().Pkg() != nil && n.Obj().Pkg().Path() == pkg && n.Obj().Name() == name
}

// ---- builtins ----

func (ex *Exec) callBuiltin(caller *frame, fn *ssa.Builtin, args []Value) Value {
	switch fn.Name() {
	case "append":
		if len(args) == 1 {
			return args[0]
		}
		var add []Value
		switch a1 := args[1].(type) {
		case Slice:
			add = a1
		case string, *SymStr:
			for _, b := range strBytes(a1) {
				add = append(add, b)
			}
		default:
			panic(fmt.Sprintf("append: %T", args[1]))
		}
		base := args[0].(Slice)
		out := base
		for _, v := range add {
			out = append(out, copyVal(v))
		}
		if out == nil && base == nil && add != nil && len(add) == 0 {
			return Slice(nil)
		}
		return out
	case "copy":
		dst := args[0].(Slice)
		var src []Value
		switch s := args[1].(type) {
		case Slice:
			src = s
		case string, *SymStr:
			for _, b := range strBytes(s) {
				src = append(src, b)
			}
		}
		n := len(src)
		if len(dst) < n {
			n = len(dst)
		}
		// overlapping copy semantics: use a temporary
		tmp := make([]Value, n)
		for i := 0; i < n; i++ {
			tmp[i] = copyVal(src[i])
		}
		for i := 0; i < n; i++ {
			if ex.accessLog != nil {
				ex.accessLog.note(ex, &dst[i], true)
			}
			dst[i] = tmp[i]
		}
		return smt.BVC(64, uint64(n))
	case "close":
		ex.chanClose(args[0].(*Chan))
		return nil
	case "delete":
		m := args[0].(*Map)
		if m != nil {
			ex.mapDelete(m, args[1])
		}
		return nil
	case "print", "println":
		return nil
	case "len":
		switch x := args[0].(type) {
		case string:
			return smt.BVC(64, uint64(len(x)))
		case *SymStr:
			if x.Opaque {
				if x.LenT == nil {
					min := 0
					for _, seg := range x.Segs {
						if seg != nil {
							min += strLen(seg)
						}
					}
					ex.P.nChoice++
					x.LenT = ex.P.newInput(fmt.Sprintf("len(opaque)#%d", ex.P.nChoice), smt.BV(64))
					hi := uint64(1 << 20)
					if x.MaxUnk > 0 {
						hi = uint64(min + x.MaxUnk + 1)
					}
					ex.P.assert(smt.And(smt.SLe(smt.BVC(64, uint64(min)), x.LenT), smt.SLt(x.LenT, smt.BVC(64, hi))))
				}
				return x.LenT
			}
			return smt.BVC(64, uint64(len(x.B)))
		case Array:
			return smt.BVC(64, uint64(len(x)))
		case *Value:
			return smt.BVC(64, uint64(len((*x).(Array))))
		case Slice:
			return smt.BVC(64, uint64(len(x)))
		case *Map:
			if x == nil {
				return smt.BVC(64, 0)
			}
			return smt.BVC(64, uint64(len(x.Entries)))
		case *Chan:
			if x == nil {
				return smt.BVC(64, 0)
			}
			if ex.tr != nil && ex.trOn() {
				r := ex.tr.fresh(ex, regW)
				ex.tr.emit(ex, TraceEvent{Kind: "len", Obj: ex.trChanRef(x), Res: []*smt.Term{r}})
				return wide(r)
			}
			return smt.BVC(64, uint64(len(x.Buf)))
		}
		panic(fmt.Sprintf("len: %T", args[0]))
	case "cap":
		switch x := args[0].(type) {
		case Array:
			return smt.BVC(64, uint64(len(x)))
		case *Value:
			return smt.BVC(64, uint64(len((*x).(Array))))
		case Slice:
			return smt.BVC(64, uint64(cap(x)))
		case *Chan:
			if x == nil {
				return smt.BVC(64, 0)
			}
			return smt.BVC(64, uint64(x.Cap))
		}
		panic(fmt.Sprintf("cap: %T", args[0]))
	case "min", "max":
		// integers only (bit-vector terms); the signedness comes from the builtin's signature
		sig, _ := fn.Type().(*types.Signature)
		signed := true
		if sig != nil && sig.Params().Len() > 0 {
			signed = isSigned(sig.Params().At(0).Type())
		}
		r, ok := args[0].(*smt.Term)
		if !ok || r.S.K != smt.KBV {
			ex.abort("builtin %s on non-integer operands is not modelled", fn.Name())
		}
		for _, a := range args[1:] {
			t := a.(*smt.Term)
			var less *smt.Term
			if signed {
				less = smt.SLt(t, r)
			} else {
				less = smt.ULt(t, r)
			}
			if fn.Name() == "max" {
				greater := smt.Not(smt.Or(less, smt.Eq(t, r)))
				r = smt.Ite(greater, t, r)
				continue
			}
			r = smt.Ite(less, t, r)
		}
		return r
	case "real":
		return args[0].(Cplx).Re
	case "imag":
		return args[0].(Cplx).Im
	case "complex":
		return Cplx{args[0].(*smt.Term), args[1].(*smt.Term)}
	case "panic":
		panic(&goPanic{V: args[0], Msg: describe(args[0])})
	case "recover":
		return ex.doRecover(caller)
	case "ssa:wrapnilchk":
		recv := args[0]
		if !isNilPtr(recv) {
			return recv
		}
		ex.rtPanic(fmt.Sprintf("value method %s.%s called using nil *%s pointer", describe(args[1]), describe(args[2]), describe(args[1])))
	}
	panic("unknown built-in: " + fn.Name())
}

func (ex *Exec) doRecover(caller *frame) Value {
	if caller != nil && !caller.panicking && caller.caller != nil && caller.caller.panicking {
		caller.caller.panicking = false
		p := caller.caller.panicV
		caller.caller.panicV = nil
		if p.Runtime {
			// a runtime.Error; harnesses distinguish it through vf.Panics only
			return Iface{T: runtimeErrorType, V: p.V.(Iface).V}
		}
		if itf, ok := p.V.(Iface); ok {
			return itf
		}
		return Iface{T: types.Typ[types.String], V: p.Msg}
	}
	return Iface{}
}

var runtimeErrorType = types.NewNamed(types.NewTypeName(token.NoPos, nil, "runtimeError", nil), types.Typ[types.String], nil)
