package sym

import (
	"fmt"
	"go/token"
	"go/types"
	"sort"
	"strings"

	"golang.org/x/tools/go/ssa"

	"verif/engine/smt"
)

// The reflect model.  A reflect.Value is (static go/types type, engine value).
// Kind, method sets, Implements and String() are computed from go/types; Call
// re-enters the executor.

const (
	kInvalid = iota
	kBool
	kInt
	kInt8
	kInt16
	kInt32
	kInt64
	kUint
	kUint8
	kUint16
	kUint32
	kUint64
	kUintptr
	kFloat32
	kFloat64
	kComplex64
	kComplex128
	kArray
	kChan
	kFunc
	kInterface
	kMap
	kPointer
	kSlice
	kString
	kStruct
	kUnsafePointer
)

func kindOf(t types.Type) int {
	if t == nil {
		return kInvalid
	}
	switch u := t.Underlying().(type) {
	case *types.Basic:
		switch u.Kind() {
		case types.Bool:
			return kBool
		case types.Int:
			return kInt
		case types.Int8:
			return kInt8
		case types.Int16:
			return kInt16
		case types.Int32:
			return kInt32
		case types.Int64:
			return kInt64
		case types.Uint:
			return kUint
		case types.Uint8:
			return kUint8
		case types.Uint16:
			return kUint16
		case types.Uint32:
			return kUint32
		case types.Uint64:
			return kUint64
		case types.Uintptr:
			return kUintptr
		case types.Float32:
			return kFloat32
		case types.Float64:
			return kFloat64
		case types.Complex64:
			return kComplex64
		case types.Complex128:
			return kComplex128
		case types.String:
			return kString
		case types.UnsafePointer:
			return kUnsafePointer
		}
	case *types.Array:
		return kArray
	case *types.Chan:
		return kChan
	case *types.Signature:
		return kFunc
	case *types.Interface:
		return kInterface
	case *types.Map:
		return kMap
	case *types.Pointer:
		return kPointer
	case *types.Slice:
		return kSlice
	case *types.Struct:
		return kStruct
	}
	panic("kindOf: " + t.String())
}

// boundMethod is the payload of a reflect.Value of Kind Func obtained from Method/MethodByName.
type boundMethod struct {
	recv Value
	fn   *ssa.Function // concrete method (receiver is first parameter); nil => dynamic
	name string
	pkg  *types.Package
	sig  *types.Signature
}

type rMapIter struct {
	m     *RVal
	order []*mapEntry
	pos   int
}

func rtypeIface(t types.Type) Value {
	if t == nil {
		return Iface{}
	}
	return Iface{T: rtypeMarker, V: RType{T: t}}
}

func (ex *Exec) rvPanic(msg string) {
	panic(&goPanic{V: Iface{T: types.Typ[types.String], V: "reflect: " + msg}, Msg: "reflect: " + msg})
}

// methodsOf lists the methods reflect exposes for t, sorted by name.
func methodsOf(t types.Type) []*types.Selection {
	ms := types.NewMethodSet(t)
	_, isIface := t.Underlying().(*types.Interface)
	var out []*types.Selection
	for i := 0; i < ms.Len(); i++ {
		s := ms.At(i)
		if isIface || s.Obj().Exported() {
			out = append(out, s)
		}
	}
	sort.SliceStable(out, func(i, j int) bool { return out[i].Obj().Name() < out[j].Obj().Name() })
	return out
}

func (ex *Exec) bind(rv *RVal, sel *types.Selection) *RVal {
	sig := sel.Type().(*types.Signature)
	plain := types.NewSignatureType(nil, nil, nil, sig.Params(), sig.Results(), sig.Variadic())
	bm := &boundMethod{name: sel.Obj().Name(), pkg: sel.Obj().Pkg(), sig: plain}
	if _, isIface := rv.T.Underlying().(*types.Interface); isIface {
		itf := rv.V.(Iface)
		if itf.T == nil {
			ex.rvPanic("Method on nil interface value")
		}
		bm.fn = ex.Pr.Prog.LookupMethod(itf.T, sel.Obj().Pkg(), sel.Obj().Name())
		bm.recv = itf.V
	} else {
		bm.fn = ex.Pr.Prog.MethodValue(sel)
		bm.recv = rv.V
	}
	if bm.fn == nil {
		ex.abort("reflect model: no SSA function for method %s of %v", sel.Obj().Name(), rv.T)
	}
	return &RVal{T: plain, V: bm, CanIf: true}
}

func (ex *Exec) rvIsNil(rv *RVal) bool {
	switch v := rv.V.(type) {
	case Iface:
		if _, ok := rv.T.Underlying().(*types.Interface); ok {
			return v.T == nil
		}
	case *Value:
		return v == nil
	case Slice:
		return v == nil
	case *Map:
		return v == nil
	case *Chan:
		return v == nil
	case *ssa.Function:
		return v == nil
	case *Closure:
		return v == nil
	case *boundMethod:
		return false
	}
	ex.rvPanic(fmt.Sprintf("call of reflect.Value.IsNil on %s Value", ex.typeString(rv.T)))
	return false
}

func (ex *Exec) rvInterface(rv *RVal) Value {
	if rv.T == nil {
		ex.rvPanic("call of reflect.Value.Interface on zero Value")
	}
	if !rv.CanIf {
		ex.rvPanic("reflect.Value.Interface: cannot return value obtained from unexported field or method")
	}
	if _, ok := rv.T.Underlying().(*types.Interface); ok {
		return rv.V.(Iface)
	}
	return Iface{T: rv.T, V: rv.V}
}

func rv(a Value) *RVal { return a.(*RVal) }

func kindTerm(k int) *smt.Term { return smt.BVC(64, uint64(k)) }

func registerReflect() {
	R := func(name string, f func(ex *Exec, a []Value) Value) {
		intrinsics[name] = func(ex *Exec, c *frame, fn *ssa.Function, a []Value) Value { return f(ex, a) }
	}
	R("reflect.ValueOf", func(ex *Exec, a []Value) Value {
		itf := a[0].(Iface)
		if itf.T == nil {
			return &RVal{}
		}
		return &RVal{T: itf.T, V: itf.V, CanIf: true}
	})
	R("reflect.TypeOf", func(ex *Exec, a []Value) Value {
		return rtypeIface(a[0].(Iface).T)
	})
	R("(reflect.Value).IsValid", func(ex *Exec, a []Value) Value { return smt.BoolC(rv(a[0]).T != nil) })
	R("(reflect.Value).Kind", func(ex *Exec, a []Value) Value { return kindTerm(kindOf(rv(a[0]).T)) })
	R("(reflect.Value).Type", func(ex *Exec, a []Value) Value {
		if rv(a[0]).T == nil {
			ex.rvPanic("call of reflect.Value.Type on zero Value")
		}
		return rtypeIface(rv(a[0]).T)
	})
	ptrOf := func(ex *Exec, a []Value) Value {
		r := rv(a[0])
		if r.T == nil {
			ex.rvPanic("call of reflect.Value.Pointer on zero Value")
		}
		// the identity of the referenced object as a number: equal exactly for the same object
		var key interface{}
		switch x := r.V.(type) {
		case *Value:
			if x == nil {
				return smt.BVC(64, 0)
			}
			key = x
		case *Map:
			if x == nil {
				return smt.BVC(64, 0)
			}
			key = x
		case *Chan:
			if x == nil {
				return smt.BVC(64, 0)
			}
			key = x
		case Slice:
			if len(x) == 0 {
				return smt.BVC(64, 0)
			}
			key = &x[0]
		default:
			ex.abort("reflect.Value.Pointer on %T is not modelled", r.V)
		}
		if ex.objIDs == nil {
			ex.objIDs = map[interface{}]uint64{}
		}
		id, ok := ex.objIDs[key]
		if !ok {
			id = uint64(len(ex.objIDs)+1) * 4096
			ex.objIDs[key] = id
		}
		return smt.BVC(64, id)
	}
	R("(reflect.Value).Pointer", ptrOf)
	R("(reflect.Value).UnsafePointer", ptrOf)
	R("(reflect.Value).IsNil", func(ex *Exec, a []Value) Value { return smt.BoolC(ex.rvIsNil(rv(a[0]))) })
	R("(reflect.Value).CanInterface", func(ex *Exec, a []Value) Value {
		if rv(a[0]).T == nil {
			ex.rvPanic("call of reflect.Value.CanInterface on zero Value")
		}
		return smt.BoolC(rv(a[0]).CanIf)
	})
	R("(reflect.Value).Interface", func(ex *Exec, a []Value) Value { return ex.rvInterface(rv(a[0])) })
	R("(reflect.Value).Len", func(ex *Exec, a []Value) Value {
		r := rv(a[0])
		switch v := r.V.(type) {
		case Slice:
			return smt.BVC(64, uint64(len(v)))
		case Array:
			return smt.BVC(64, uint64(len(v)))
		case string:
			return smt.BVC(64, uint64(len(v)))
		case *SymStr:
			ex.needClear(v)
			return smt.BVC(64, uint64(len(v.B)))
		case *Map:
			if v == nil {
				return smt.BVC(64, 0)
			}
			return smt.BVC(64, uint64(len(v.Entries)))
		case *Chan:
			if v == nil {
				return smt.BVC(64, 0)
			}
			return smt.BVC(64, uint64(len(v.Buf)))
		}
		ex.rvPanic("call of reflect.Value.Len on " + kindName(kindOf(r.T)) + " Value")
		return nil
	})
	R("(reflect.Value).Index", func(ex *Exec, a []Value) Value {
		r := rv(a[0])
		idx := a[1].(*smt.Term)
		switch v := r.V.(type) {
		case Slice:
			if idx.IsConst() && (idx.SInt() < 0 || idx.SInt() >= int64(len(v))) {
				ex.rvPanic("slice index out of range")
			}
			i := ex.concIndex(idx, len(v), true)
			return &RVal{T: r.T.Underlying().(*types.Slice).Elem(), V: copyVal(v[i]), CanIf: r.CanIf}
		case Array:
			i := ex.concIndex(idx, len(v), true)
			return &RVal{T: r.T.Underlying().(*types.Array).Elem(), V: copyVal(v[i]), CanIf: r.CanIf}
		case string, *SymStr:
			return &RVal{T: types.Typ[types.Uint8], V: ex.index(v, idx, true), CanIf: r.CanIf}
		}
		ex.rvPanic("call of reflect.Value.Index on " + kindName(kindOf(r.T)) + " Value")
		return nil
	})
	R("(reflect.Value).Elem", func(ex *Exec, a []Value) Value {
		r := rv(a[0])
		switch u := r.T.Underlying().(type) {
		case *types.Interface:
			itf := r.V.(Iface)
			if itf.T == nil {
				return &RVal{}
			}
			return &RVal{T: itf.T, V: itf.V, CanIf: r.CanIf}
		case *types.Pointer:
			p := r.V.(*Value)
			if p == nil {
				return &RVal{}
			}
			return &RVal{T: u.Elem(), V: ex.load(p), CanIf: r.CanIf}
		}
		ex.rvPanic("call of reflect.Value.Elem on " + kindName(kindOf(r.T)) + " Value")
		return nil
	})
	R("(reflect.Value).NumMethod", func(ex *Exec, a []Value) Value {
		r := rv(a[0])
		if r.T == nil {
			ex.rvPanic("call of reflect.Value.NumMethod on zero Value")
		}
		return smt.BVC(64, uint64(len(methodsOf(r.T))))
	})
	R("(reflect.Value).Method", func(ex *Exec, a []Value) Value {
		r := rv(a[0])
		ms := methodsOf(r.T)
		i, ok := concInt(a[1])
		if !ok || i < 0 || int(i) >= len(ms) {
			ex.rvPanic("Method index out of range")
		}
		return ex.bind(r, ms[i])
	})
	R("(reflect.Value).MethodByName", func(ex *Exec, a []Value) Value {
		r := rv(a[0])
		name, ok := a[1].(string)
		if !ok {
			ex.abort("MethodByName with symbolic name")
		}
		if r.T == nil {
			ex.rvPanic("call of reflect.Value.MethodByName on zero Value")
		}
		for _, s := range methodsOf(r.T) {
			if s.Obj().Name() == name {
				if _, isIface := r.T.Underlying().(*types.Interface); isIface && r.V.(Iface).T == nil {
					ex.rvPanic("Method on nil interface value")
				}
				return ex.bind(r, s)
			}
		}
		return &RVal{}
	})
	R("(reflect.Value).Call", func(ex *Exec, a []Value) Value {
		r := rv(a[0])
		bm, ok := r.V.(*boundMethod)
		if !ok {
			ex.abort("reflect.Value.Call on a non-method func value")
		}
		in := a[1].(Slice)
		if len(in) != bm.sig.Params().Len() {
			ex.rvPanic("Call with wrong number of input arguments")
		}
		args := []Value{bm.recv}
		for i, x := range in {
			xv := rv(x)
			pt := bm.sig.Params().At(i).Type()
			if _, isIface := pt.Underlying().(*types.Interface); isIface {
				args = append(args, ex.rvInterface(xv))
			} else {
				args = append(args, xv.V)
			}
		}
		res := ex.call(nil, bm.fn, args)
		var out Slice
		n := bm.sig.Results().Len()
		switch n {
		case 0:
		case 1:
			out = Slice{&RVal{T: bm.sig.Results().At(0).Type(), V: res, CanIf: true}}
		default:
			for i, x := range res.(Tuple) {
				out = append(out, &RVal{T: bm.sig.Results().At(i).Type(), V: x, CanIf: true})
			}
		}
		if out == nil {
			out = Slice{}
		}
		return out
	})
	R("(reflect.Value).Bool", func(ex *Exec, a []Value) Value {
		if kindOf(rv(a[0]).T) != kBool {
			ex.rvPanic("call of reflect.Value.Bool on " + kindName(kindOf(rv(a[0]).T)) + " Value")
		}
		return rv(a[0]).V
	})
	R("(reflect.Value).Int", func(ex *Exec, a []Value) Value {
		k := kindOf(rv(a[0]).T)
		if k < kInt || k > kInt64 {
			ex.rvPanic("call of reflect.Value.Int on " + kindName(k) + " Value")
		}
		return smt.Resize(rv(a[0]).V.(*smt.Term), 64, true)
	})
	R("(reflect.Value).Uint", func(ex *Exec, a []Value) Value {
		k := kindOf(rv(a[0]).T)
		if k < kUint || k > kUintptr {
			ex.rvPanic("call of reflect.Value.Uint on " + kindName(k) + " Value")
		}
		return smt.Resize(rv(a[0]).V.(*smt.Term), 64, false)
	})
	R("(reflect.Value).Float", func(ex *Exec, a []Value) Value {
		k := kindOf(rv(a[0]).T)
		if k != kFloat32 && k != kFloat64 {
			ex.rvPanic("call of reflect.Value.Float on " + kindName(k) + " Value")
		}
		return smt.FPConv(rv(a[0]).V.(*smt.Term), 64)
	})
	R("(reflect.Value).Complex", func(ex *Exec, a []Value) Value {
		k := kindOf(rv(a[0]).T)
		if k != kComplex64 && k != kComplex128 {
			ex.rvPanic("call of reflect.Value.Complex on " + kindName(k) + " Value")
		}
		c := rv(a[0]).V.(Cplx)
		return Cplx{smt.FPConv(c.Re, 64), smt.FPConv(c.Im, 64)}
	})
	R("(reflect.Value).String", func(ex *Exec, a []Value) Value {
		r := rv(a[0])
		if r.T == nil {
			return "<invalid Value>"
		}
		if kindOf(r.T) == kString {
			return r.V
		}
		return "<" + ex.typeString(r.T) + " Value>"
	})
	R("(reflect.Value).NumField", func(ex *Exec, a []Value) Value {
		st, ok := rv(a[0]).T.Underlying().(*types.Struct)
		if !ok {
			ex.rvPanic("call of reflect.Value.NumField on non-struct Value")
		}
		return smt.BVC(64, uint64(st.NumFields()))
	})
	R("(reflect.Value).Field", func(ex *Exec, a []Value) Value {
		r := rv(a[0])
		st, ok := r.T.Underlying().(*types.Struct)
		if !ok {
			ex.rvPanic("call of reflect.Value.Field on non-struct Value")
		}
		i, ok := concInt(a[1])
		if !ok || i < 0 || int(i) >= st.NumFields() {
			ex.rvPanic("Field index out of range")
		}
		return &RVal{T: st.Field(int(i)).Type(), V: copyVal(r.V.(Struct)[i]), CanIf: r.CanIf && st.Field(int(i)).Exported()}
	})
	R("(reflect.Value).MapKeys", func(ex *Exec, a []Value) Value {
		r := rv(a[0])
		m, ok := r.V.(*Map)
		if !ok {
			ex.rvPanic("call of reflect.Value.MapKeys on non-map Value")
		}
		out := Slice{}
		if m == nil {
			return out
		}
		kt := r.T.Underlying().(*types.Map).Key()
		for _, e := range ex.mapOrder(m) {
			out = append(out, &RVal{T: kt, V: e.K, CanIf: r.CanIf})
		}
		return out
	})
	R("(reflect.Value).MapIndex", func(ex *Exec, a []Value) Value {
		r := rv(a[0])
		m, ok := r.V.(*Map)
		if !ok {
			ex.rvPanic("call of reflect.Value.MapIndex on non-map Value")
		}
		if m == nil {
			return &RVal{}
		}
		mt := r.T.Underlying().(*types.Map)
		k := rv(a[1])
		var key Value = k.V
		if _, isIface := mt.Key().Underlying().(*types.Interface); isIface {
			key = ex.rvInterface(k)
		}
		if e := ex.mapFind(m, key); e != nil {
			return &RVal{T: mt.Elem(), V: copyVal(e.V), CanIf: r.CanIf}
		}
		return &RVal{}
	})
	R("(reflect.Value).MapRange", func(ex *Exec, a []Value) Value {
		r := rv(a[0])
		m, ok := r.V.(*Map)
		if !ok {
			ex.rvPanic("call of reflect.Value.MapRange on non-map Value")
		}
		it := &rMapIter{m: r, pos: -1}
		if m != nil {
			it.order = ex.mapOrder(m)
		}
		return it
	})
	R("(*reflect.MapIter).Next", func(ex *Exec, a []Value) Value {
		it := a[0].(*rMapIter)
		it.pos++
		return smt.BoolC(it.pos < len(it.order))
	})
	R("(*reflect.MapIter).Key", func(ex *Exec, a []Value) Value {
		it := a[0].(*rMapIter)
		if it.pos < 0 || it.pos >= len(it.order) {
			ex.rvPanic("MapIter.Key called before Next or after exhaustion")
		}
		return &RVal{T: it.m.T.Underlying().(*types.Map).Key(), V: it.order[it.pos].K, CanIf: it.m.CanIf}
	})
	R("(*reflect.MapIter).Value", func(ex *Exec, a []Value) Value {
		it := a[0].(*rMapIter)
		if it.pos < 0 || it.pos >= len(it.order) {
			ex.rvPanic("MapIter.Value called before Next or after exhaustion")
		}
		return &RVal{T: it.m.T.Underlying().(*types.Map).Elem(), V: copyVal(it.order[it.pos].V), CanIf: it.m.CanIf}
	})
}

func kindName(k int) string {
	return [...]string{"invalid", "bool", "int", "int8", "int16", "int32", "int64", "uint", "uint8", "uint16", "uint32", "uint64", "uintptr", "float32", "float64", "complex64", "complex128", "array", "chan", "func", "interface", "map", "ptr", "slice", "string", "struct", "unsafe.Pointer"}[k]
}

// rtypeCall dispatches a method of reflect.Type on the model.
func (ex *Exec) rtypeCall(fr *frame, name string, args []Value) Value {
	t := args[0].(RType).T
	switch name {
	case "String":
		return ex.typeString(t)
	case "Name":
		if n, ok := t.(*types.Named); ok {
			return n.Obj().Name()
		}
		if b, ok := t.(*types.Basic); ok {
			return b.Name()
		}
		return ""
	case "Kind":
		return kindTerm(kindOf(t))
	case "Elem":
		switch u := t.Underlying().(type) {
		case *types.Pointer:
			return rtypeIface(u.Elem())
		case *types.Slice:
			return rtypeIface(u.Elem())
		case *types.Array:
			return rtypeIface(u.Elem())
		case *types.Map:
			return rtypeIface(u.Elem())
		case *types.Chan:
			return rtypeIface(u.Elem())
		}
		ex.rvPanic("Elem of invalid type " + ex.typeString(t))
	case "Key":
		if u, ok := t.Underlying().(*types.Map); ok {
			return rtypeIface(u.Key())
		}
		ex.rvPanic("Key of non-map type " + ex.typeString(t))
	case "NumMethod":
		return smt.BVC(64, uint64(len(methodsOf(t))))
	case "Method":
		ms := methodsOf(t)
		i, ok := concInt(args[1])
		if !ok || i < 0 || int(i) >= len(ms) {
			ex.rvPanic("reflect: Method index out of range")
		}
		s := ms[i]
		pkgPath := ""
		if !s.Obj().Exported() && s.Obj().Pkg() != nil {
			pkgPath = s.Obj().Pkg().Path()
		}
		// reflect.Method{Name, PkgPath, Type, Func, Index}
		return Struct{s.Obj().Name(), pkgPath, rtypeIface(s.Type()), &RVal{}, smt.BVC(64, uint64(i))}
	case "NumIn":
		if sig, ok := t.Underlying().(*types.Signature); ok {
			return smt.BVC(64, uint64(sig.Params().Len()))
		}
		ex.rvPanic("NumIn of non-func type " + ex.typeString(t))
	case "NumOut":
		if sig, ok := t.Underlying().(*types.Signature); ok {
			return smt.BVC(64, uint64(sig.Results().Len()))
		}
		ex.rvPanic("NumOut of non-func type " + ex.typeString(t))
	case "Implements":
		u := args[1].(Iface)
		if u.T == nil {
			ex.rvPanic("nil type passed to Type.Implements")
		}
		ut := u.V.(RType).T
		it, ok := ut.Underlying().(*types.Interface)
		if !ok {
			ex.rvPanic("non-interface type passed to Type.Implements")
		}
		return smt.BoolC(types.Implements(t, it))
	case "Comparable":
		return smt.BoolC(types.Comparable(t))
	}
	ex.abort("reflect.Type.%s is not modelled", name)
	return nil
}

// typeString mimics reflect.Type.String(): package *name* qualifier for the
// outermost named type, full import path inside type-argument lists.
func (ex *Exec) typeString(t types.Type) string {
	return rtypeString(t, false)
}

func rtypeString(t types.Type, inArgs bool) string {
	switch u := t.(type) {
	case *types.Alias:
		return rtypeString(types.Unalias(u), inArgs)
	case *types.Basic:
		switch u.Kind() {
		case types.Uint8:
			return "uint8"
		case types.Int32:
			return "int32"
		case types.UnsafePointer:
			return "unsafe.Pointer"
		}
		return u.Name()
	case *types.Named:
		var sb strings.Builder
		if p := u.Obj().Pkg(); p != nil {
			if inArgs {
				sb.WriteString(p.Path())
			} else {
				sb.WriteString(p.Name())
			}
			sb.WriteByte('.')
		}
		sb.WriteString(u.Obj().Name())
		if ta := u.TypeArgs(); ta != nil && ta.Len() > 0 {
			sb.WriteByte('[')
			for i := 0; i < ta.Len(); i++ {
				if i > 0 {
					sb.WriteByte(',')
				}
				sb.WriteString(rtypeString(ta.At(i), true))
			}
			sb.WriteByte(']')
		}
		return sb.String()
	case *types.Pointer:
		return "*" + rtypeString(u.Elem(), inArgs)
	case *types.Slice:
		return "[]" + rtypeString(u.Elem(), inArgs)
	case *types.Array:
		return fmt.Sprintf("[%d]%s", u.Len(), rtypeString(u.Elem(), inArgs))
	case *types.Map:
		return "map[" + rtypeString(u.Key(), inArgs) + "]" + rtypeString(u.Elem(), inArgs)
	case *types.Chan:
		switch u.Dir() {
		case types.SendOnly:
			return "chan<- " + rtypeString(u.Elem(), inArgs)
		case types.RecvOnly:
			return "<-chan " + rtypeString(u.Elem(), inArgs)
		}
		return "chan " + rtypeString(u.Elem(), inArgs)
	case *types.Interface:
		if u.NumMethods() == 0 {
			return "interface {}"
		}
		var ms []string
		for i := 0; i < u.NumMethods(); i++ {
			m := u.Method(i)
			ms = append(ms, m.Name()+strings.TrimPrefix(rtypeString(m.Type(), inArgs), "func"))
		}
		return "interface { " + strings.Join(ms, "; ") + " }"
	case *types.Signature:
		var ps []string
		for i := 0; i < u.Params().Len(); i++ {
			p := rtypeString(u.Params().At(i).Type(), inArgs)
			if u.Variadic() && i == u.Params().Len()-1 {
				p = "..." + strings.TrimPrefix(p, "[]")
			}
			ps = append(ps, p)
		}
		s := "func(" + strings.Join(ps, ", ") + ")"
		switch u.Results().Len() {
		case 0:
		case 1:
			s += " " + rtypeString(u.Results().At(0).Type(), inArgs)
		default:
			var rs []string
			for i := 0; i < u.Results().Len(); i++ {
				rs = append(rs, rtypeString(u.Results().At(i).Type(), inArgs))
			}
			s += " (" + strings.Join(rs, ", ") + ")"
		}
		return s
	case *types.Struct:
		if u.NumFields() == 0 {
			return "struct {}"
		}
		var fs []string
		for i := 0; i < u.NumFields(); i++ {
			f := u.Field(i)
			if f.Embedded() {
				fs = append(fs, rtypeString(f.Type(), inArgs))
			} else {
				fs = append(fs, f.Name()+" "+rtypeString(f.Type(), inArgs))
			}
		}
		return "struct { " + strings.Join(fs, "; ") + " }"
	}
	return t.String()
}

var _ = token.NoPos
