package sym

import (
	"fmt"
	"os"
	"sort"
	"strings"
	"time"

	"verif/engine/smt"
)

// Engine B back end: bounded model checking of the thread event trees with a
// symbolic schedule.  State = per-thread program counter (tree node) and read
// registers, mutex owners, per-channel (count, closed, capacity), sequences,
// shared cells, wait-group counters, harness slots.  One schedule variable per
// step; the step function is a functional ite encoding with fresh variables per
// step.  Semantics of mutex / buffered channel / len / WaitGroup are the
// sequentially consistent ones.

type bNode struct {
	id       int
	ev       TraceEvent
	children []*bChild
}

type bChild struct {
	conds []*smt.Term
	to    *bNode
}

type bThread struct {
	nodes []*bNode // nodes[0] is the entry (first event)
	depth int
}

func evSig(e TraceEvent) string {
	var sb strings.Builder
	sb.WriteString(e.Kind)
	sb.WriteString("|" + e.Label + "|" + e.Text)
	k := func(t *smt.Term) {
		if t == nil {
			sb.WriteString("|-")
			return
		}
		key := t.Key()
		fmt.Fprintf(&sb, "|%x.%x", key[0], key[1])
	}
	k(e.Obj)
	for _, a := range e.Args {
		k(a)
	}
	sb.WriteString("#")
	for _, c := range e.Pre {
		k(c)
	}
	return sb.String()
}

// buildTree merges the explored paths of one thread into its event tree.
func buildTree(paths [][]TraceEvent) *bThread {
	th := &bThread{}
	root := &bNode{id: -1}
	for _, p := range paths {
		cur := root
		for _, e := range p {
			sig := evSig(e)
			var next *bNode
			for _, c := range cur.children {
				if evSig(c.to.ev) == sig {
					next = c.to
					break
				}
			}
			if next == nil {
				next = &bNode{id: len(th.nodes) + 1, ev: e}
				th.nodes = append(th.nodes, next)
				cur.children = append(cur.children, &bChild{conds: e.Pre, to: next})
			}
			cur = next
		}
		if len(p) > th.depth {
			th.depth = len(p)
		}
	}
	// the entry node is the root's single child
	if len(root.children) == 1 {
		// rotate so that nodes[0] is the entry
		entry := root.children[0].to
		for i, n := range th.nodes {
			if n == entry {
				th.nodes[0], th.nodes[i] = th.nodes[i], th.nodes[0]
			}
		}
		for i, n := range th.nodes {
			n.id = i + 1
		}
	}
	return th
}

type BMCResult struct {
	Verdict     string // "safe", "violation", "unknown", "unsupported"
	Kind        string // assert label / "panic" / "deadlock" / "race" / ...
	Detail      string
	Schedule    []int
	TraceText   []string
	Steps       int
	StateVars   int
	Transitions int
	Queries     int
	SolverS     float64
	Notes       []string
}

type bmc struct {
	meta      *Tracer
	threads   []*bThread
	W         int
	NC, NS    int
	L         int
	slots     map[string]int
	s         *smt.Solver
	pr        *smt.Printer
	nfresh    int
	stored    map[uint64]bool
	allStored bool
	fuse      map[*bNode]bool
	constLoad map[*bNode]bool
	constVal  map[string]int64
	starts    map[*bNode]bool
	foot      map[*bNode]map[string]bool // partial-order reduction: objects a step starting here may touch
}

type bState struct {
	pc      []*smt.Term
	reg     map[string]*smt.Term
	mutex   []*smt.Term
	readers []*smt.Term // RWMutex read-lock counts
	cnt     []*smt.Term
	closed  []*smt.Term
	capv    []*smt.Term
	nextC   *smt.Term
	nextS   *smt.Term
	slen    []*smt.Term
	scell   [][]*smt.Term
	cell    []*smt.Term
	wg      []*smt.Term
	slot    []*smt.Term
	bad     *smt.Term            // a safety violation has happened
	badKind map[string]*smt.Term // per kind
}

func (b *bmc) c(v int) *smt.Term { return smt.BVC(regW, uint64(v)) }

const pcW = 12

func (b *bmc) pcc(v int) *smt.Term { return smt.BVC(pcW, uint64(v)) }

func (b *bmc) freshVar(name string, s smt.Sort) *smt.Term {
	b.nfresh++
	return smt.Var(fmt.Sprintf("%s!%d", name, b.nfresh), s)
}

// subst evaluates a trace term over the current register state.
func (b *bmc) subst(t *smt.Term, st *bState, memo map[*smt.Term]*smt.Term) *smt.Term {
	if t.IsConst() {
		return t
	}
	if r, ok := memo[t]; ok {
		return r
	}
	var r *smt.Term
	if t.Op == "var" {
		v, ok := st.reg[t.Name]
		if !ok {
			// a register that is never assigned before use on this path: unconstrained zero
			v = smt.BVC(t.S.W, 0)
		}
		if v.S != t.S {
			v = smt.Resize(v, t.S.W, false)
		}
		r = v
	} else {
		args := make([]*smt.Term, len(t.Args))
		for i, a := range t.Args {
			args[i] = b.subst(a, st, memo)
		}
		r = smt.Rebuild(t, args)
	}
	memo[t] = r
	return r
}

func isVisible(kind string) bool {
	switch kind {
	case "begin", "end", "put", "get", "assert", "done":
		return false
	}
	return true
}

// RunBMC builds and solves the model.  traces[i] = explored paths of thread i.
func RunBMC(meta *Tracer, traces [][][]TraceEvent, solverBin string, timeoutMs int, wantRace bool, hunt bool) *BMCResult {
	res := &BMCResult{}
	b := &bmc{meta: meta, slots: map[string]int{}}
	for _, paths := range traces {
		b.threads = append(b.threads, buildTree(paths))
	}
	T := len(b.threads)
	// static pruning of receive branches that no execution can take (checked: reaching one is reported)
	b.classify()
	if np := b.pruneRecv(); np > 0 {
		res.Notes = append(res.Notes, fmt.Sprintf("%d receive branches beyond the number of values ever sent were replaced by a checked assumption", np))
	}
	// pools
	nMake, nNew, nApp := 0, 0, 0
	var regs []struct {
		name string
		w    int
	}
	seenReg := map[string]bool{}
	for _, th := range b.threads {
		for _, n := range th.nodes {
			switch n.ev.Kind {
			case "makechan":
				nMake++
			case "seqnew":
				nNew++
			case "seqappend":
				nApp++
			case "put", "get":
				if _, ok := b.slots[n.ev.Label]; !ok {
					b.slots[n.ev.Label] = len(b.slots)
				}
			case "cutoff":
				res.Notes = append(res.Notes, "an event path was cut at the bound")
			}
			for _, r := range n.ev.Res {
				if !seenReg[r.Name] {
					seenReg[r.Name] = true
					regs = append(regs, struct {
						name string
						w    int
					}{r.Name, r.S.W})
				}
			}
		}
	}
	b.NC = len(meta.Chans) + nMake
	b.NS = len(meta.Seqs) + nNew
	b.L = nApp
	for _, s := range meta.Seqs {
		if len(s)+nApp > b.L {
			b.L = len(s) + nApp
		}
	}
	if b.L > 6 {
		b.L = 6
	}
	if b.L < 1 {
		b.L = 1
	}
	b.classify()
	b.starts = map[*bNode]bool{}
	for _, th := range b.threads {
		if len(th.nodes) == 0 {
			continue
		}
		b.starts[th.nodes[0]] = true
		var mark func(n *bNode, inPrefix bool)
		mark = func(n *bNode, inPrefix bool) {
			nv := inPrefix && !b.vis(n)
			for _, c := range n.children {
				if b.fuse[c.to] || nv {
					mark(c.to, nv)
				} else {
					b.starts[c.to] = true
					mark(c.to, b.firstVisible(c.to) != nil && !b.vis(c.to))
				}
			}
		}
		e := th.nodes[0]
		mark(e, b.firstVisible(e) != nil && !b.vis(e))
	}
	if os.Getenv("VF_BMC_DEBUG") != "" {
		for i, th := range b.threads {
			for _, n := range th.nodes {
				kids := ""
				for _, c := range n.children {
					kids += fmt.Sprintf(" ->%d(%d conds)", c.to.id, len(c.conds))
				}
				fmt.Printf("T%d n%d start=%v fuse=%v vis=%v %s%s\n", i, n.id, b.starts[n], b.fuse[n], b.vis(n), EventString(n.ev), kids)
			}
		}
	}
	usePOR := os.Getenv("VF_BMC_NOPOR") == ""
	ctEvery := 1
	fmt.Sscan(os.Getenv("VF_BMC_CT"), &ctEvery)
	if ctEvery < 1 {
		ctEvery = 1
	}
	if usePOR {
		b.footprints(wantRace)
		res.Notes = append(res.Notes, "partial-order reduction: only schedules in which no step directly follows an independent step of a higher-numbered thread")
	}
	K := 0
	minK := 0
	for _, th := range b.threads {
		K += b.stepDepth(th)
		minK += b.minStepDepth(th)
	}
	_ = minK
	res.Steps = K
	if os.Getenv("VF_BMC_CT") == "" {
		// completeness-threshold queries pay off only when the static bound is far above what executions need
		if K-minK <= 14 {
			ctEvery = 1 << 20
		} else {
			ctEvery = 3
		}
	}
	res.Notes = append(res.Notes, fmt.Sprintf("static step bound %d, shortest complete execution %d steps", K, minK))

	// initial state
	st := &bState{reg: map[string]*smt.Term{}, badKind: map[string]*smt.Term{}}
	for i, th := range b.threads {
		_ = th
		if i == 0 || true {
			st.pc = append(st.pc, b.pcc(1))
		}
	}
	for _, r := range regs {
		st.reg[r.name] = smt.BVC(r.w, 0)
	}
	for i := 0; i < meta.NMutex; i++ {
		st.mutex = append(st.mutex, b.c(0))
		st.readers = append(st.readers, b.c(0))
	}
	for i := 0; i < b.NC; i++ {
		if i < len(meta.Chans) {
			st.cnt = append(st.cnt, b.c(meta.Chans[i].Count))
			st.closed = append(st.closed, smt.BoolC(meta.Chans[i].Closed))
			st.capv = append(st.capv, b.c(meta.Chans[i].Cap))
		} else {
			st.cnt = append(st.cnt, b.c(0))
			st.closed = append(st.closed, smt.False)
			st.capv = append(st.capv, b.c(0))
		}
	}
	st.nextC = b.c(len(meta.Chans))
	st.nextS = b.c(len(meta.Seqs))
	for i := 0; i < b.NS; i++ {
		cells := make([]*smt.Term, b.L)
		n := 0
		for p := range cells {
			cells[p] = b.c(0)
			if i < len(meta.Seqs) && p < len(meta.Seqs[i]) {
				cells[p] = b.c(int(meta.Seqs[i][p]))
				n++
			}
		}
		st.slen = append(st.slen, b.c(n))
		st.scell = append(st.scell, cells)
	}
	for _, v := range meta.Cells {
		st.cell = append(st.cell, b.c(int(v)))
	}
	for _, v := range meta.WGs {
		st.wg = append(st.wg, b.c(v))
	}
	for range b.slots {
		st.slot = append(st.slot, b.c(0))
	}
	st.bad = smt.False
	for _, th := range b.threads {
		for _, n := range th.nodes {
			if b.constLoad[n] {
				st.reg[n.ev.Res[0].Name] = smt.BVC(n.ev.Res[0].S.W, uint64(b.constVal[n.ev.Res[0].Name]))
			}
		}
	}

	s, err := smt.StartLogic(solverBin, timeoutMs, "QF_BV")
	if err != nil {
		res.Verdict, res.Detail = "unknown", err.Error()
		return res
	}
	defer s.Close()
	// whole-program watchdog: building and asserting the unrolling can itself take the solver long
	// (it simplifies as it reads); past two query time limits the program is given up as undecided
	watchdog := time.AfterFunc(time.Duration(2*timeoutMs+30000)*time.Millisecond, func() { s.Kill() })
	defer watchdog.Stop()
	b.s = s
	b.pr = smt.NewPrinter()
	assert := func(t *smt.Term) {
		if t.IsConst() && t.C == 1 {
			return
		}
		r := b.pr.Ref(t)
		s.Send(b.pr.Flush())
		s.Send("(assert " + r + ")\n")
	}

	type stepInfo struct {
		sched *smt.Term
		pcs   []*smt.Term
		dbg   []*smt.Term
	}
	var steps []stepInfo
	var qlog []string
	tStart := time.Now()
	defer func() { res.Notes = append(res.Notes, "query times: "+strings.Join(qlog, " ")) }()
	raceAny := smt.False
	nTrans := 0
	complete := false

	for t := 0; t < K; t++ {
		sched := b.freshVar(fmt.Sprintf("sched_%d", t), smt.BV(regW))
		var dbg []*smt.Term
		if os.Getenv("VF_BMC_DEBUG") != "" {
			dbg = append(dbg, st.slen...)
			dbg = append(dbg, st.cnt...)
			dbg = append(dbg, st.bad)
		}
		steps = append(steps, stepInfo{sched: sched, pcs: append([]*smt.Term(nil), st.pc...), dbg: dbg})
		assert(smt.ULt(sched, b.c(T)))
		if usePOR && t > 0 {
			// canonical schedules only: a step of thread j directly after an independent step of a thread
			// i > j is forbidden (the swapped schedule is equivalent and lexicographically smaller)
			prev := steps[t-1]
			for i := 1; i < T; i++ {
				for j := 0; j < i; j++ {
					ind := b.indepAt(i, j, prev.pcs)
					if ind.IsConst() && ind.C == 0 {
						continue
					}
					assert(smt.Not(smt.And(smt.And(smt.Eq(prev.sched, b.c(i)), smt.Eq(sched, b.c(j))), ind)))
				}
			}
		}
		next, anyEnabled := b.step(st, sched, t, &nTrans)
		if t >= 3 && t >= minK && (t-minK)%ctEvery == 0 && time.Since(tStart) < time.Duration(2*timeoutMs)*time.Millisecond {
			// completeness threshold: if no execution can still move at time t, the unrolling is complete
			r := b.pr.Ref(anyEnabled)
			s.Send(b.pr.Flush())
			s.Send("(push 1)\n")
			s.Send("(assert " + r + ")\n")
			t0 := time.Now()
			out := s.Check()
			res.Queries++
			res.SolverS += time.Since(t0).Seconds()
			qlog = append(qlog, fmt.Sprintf("complete@%d=%.1fs", t, time.Since(t0).Seconds()))
			s.Send("(pop 1)\n")
			if out == smt.Unsat {
				steps = steps[:len(steps)-1]
				res.Steps = t
				complete = true
				break
			}
			if out == smt.Unknown && !hunt {
				res.Verdict, res.Detail = "unknown", fmt.Sprintf("completeness query at depth %d: %s", t, s.LastErr)
				return res
			}
		}
		if wantRace {
			raceAny = smt.Or(raceAny, b.raceAt(st))
		}
		// introduce fresh variables for the next state (keeps the formula flat)
		st = b.freshen(next, t+1, assert)
	}
	if !complete {
		res.Notes = append(res.Notes, fmt.Sprintf("unrolled to the static bound of %d steps", K))
	}
	res.Transitions = nTrans
	res.StateVars = len(st.reg) + len(st.pc) + len(st.mutex) + 3*len(st.cnt) + len(st.slen)*(1+b.L) + len(st.cell) + len(st.wg) + len(st.slot)

	allDone := smt.True
	for i := range b.threads {
		allDone = smt.And(allDone, smt.Eq(st.pc[i], b.pcc(0)))
	}
	query := func(name string, cond *smt.Term) (smt.Result, []int) {
		if time.Since(tStart) > time.Duration(3*timeoutMs)*time.Millisecond {
			s.LastErr = "time budget of the program used up (three query time limits)"
			qlog = append(qlog, name+"=skipped")
			return smt.Unknown, nil
		}
		r := b.pr.Ref(cond)
		s.Send(b.pr.Flush()) // definitions stay outside the scope that is popped again
		s.Send("(push 1)\n")
		s.Send("(assert " + r + ")\n")
		t0 := time.Now()
		out := s.Check()
		res.Queries++
		res.SolverS += time.Since(t0).Seconds()
		qlog = append(qlog, fmt.Sprintf("%s=%.1fs", name, time.Since(t0).Seconds()))
		var sch []int
		if out == smt.Sat {
			res.TraceText = nil
			var refs []string
			for _, si := range steps {
				refs = append(refs, b.pr.Ref(si.sched))
			}
			for _, si := range steps {
				for _, pc := range si.pcs {
					if !pc.IsConst() {
						refs = append(refs, b.pr.Ref(pc))
					}
				}
				for _, d := range si.dbg {
					if !d.IsConst() {
						refs = append(refs, b.pr.Ref(d))
					}
				}
			}
			vals, err := s.GetValues(dedup(refs))
			if err == nil {
				for _, si := range steps {
					th := int(vals[b.pr.Ref(si.sched)])
					sch = append(sch, th)
					pcv := uint64(1)
					if th < len(si.pcs) {
						if si.pcs[th].IsConst() {
							pcv = si.pcs[th].C
						} else {
							pcv = vals[b.pr.Ref(si.pcs[th])]
						}
					}
					desc := "-"
					if th < len(b.threads) && pcv >= 1 && int(pcv) <= len(b.threads[th].nodes) {
						desc = EventString(b.threads[th].nodes[pcv-1].ev)
					} else if pcv == 0 {
						desc = "(finished)"
					}
					dbgs := ""
					for _, d := range si.dbg {
						if d.IsConst() {
							dbgs += fmt.Sprintf(" %d", d.C)
						} else {
							dbgs += fmt.Sprintf(" %d", vals[b.pr.Ref(d)])
						}
					}
					res.TraceText = append(res.TraceText, fmt.Sprintf("t%d: T%d %s%s", len(sch)-1, th, desc, dbgs))
				}
			}
		}
		s.Send("(pop 1)\n")
		return out, sch
	}

	var undecided []string
	// 0. everything at once: no assertion failure, no thread left unfinished, no race.  unsat settles all three
	// with one proof; sat or no verdict falls through to the separate queries, which name the kind.
	{
		all := smt.Or(st.bad, smt.Not(allDone))
		if wantRace {
			all = smt.Or(all, raceAny)
		}
		if out0, _ := query("all", all); out0 == smt.Unsat {
			res.Verdict = "safe"
			return res
		}
	}
	// 1. safety
	kinds := make([]string, 0, len(st.badKind))
	for k := range st.badKind {
		kinds = append(kinds, k)
	}
	sort.Strings(kinds)
	out, sch := query("safety", st.bad)
	switch out {
	case smt.Sat:
		res.Verdict, res.Schedule = "violation", sch
		res.Kind = "safety"
		// which kind?
		for _, k := range kinds {
			if o, _ := query(k, st.badKind[k]); o == smt.Sat {
				res.Kind = k
				break
			}
		}
		if strings.HasPrefix(res.Kind, "internal:") {
			res.Verdict, res.Detail = "unknown", res.Kind
		}
		return res
	case smt.Unknown:
		if !hunt {
			res.Verdict, res.Detail = "unknown", "safety query: "+s.LastErr
			return res
		}
		undecided = append(undecided, "safety")
	}
	// 2. deadlock / lost wake-up: after K steps some thread has not finished
	out, sch = query("deadlock", smt.Not(allDone))
	switch out {
	case smt.Sat:
		res.Verdict, res.Kind, res.Schedule = "violation", "deadlock", sch
		return res
	case smt.Unknown:
		if !hunt {
			res.Verdict, res.Detail = "unknown", "deadlock query: "+s.LastErr
			return res
		}
		undecided = append(undecided, "deadlock")
	}
	// 3. data race
	if wantRace {
		out, sch = query("race", raceAny)
		switch out {
		case smt.Sat:
			res.Verdict, res.Kind, res.Schedule = "violation", "race", sch
			return res
		case smt.Unknown:
			if !hunt {
				res.Verdict, res.Detail = "unknown", "race query: "+s.LastErr
				return res
			}
			undecided = append(undecided, "race")
		}
	}
	if len(undecided) > 0 {
		// search mode: no violating execution was found within the time limit, nothing is claimed
		res.Verdict, res.Detail = "undecided", "no verdict within the time limit for: "+strings.Join(undecided, ", ")
		return res
	}
	res.Verdict = "safe"
	return res
}

// freshen binds every component of the state to a fresh variable.
func (b *bmc) freshen(st *bState, t int, assert func(*smt.Term)) *bState {
	fv := func(name string, x *smt.Term) *smt.Term {
		if x.IsConst() {
			return x
		}
		v := b.freshVar(fmt.Sprintf("%s_%d", name, t), x.S)
		assert(smt.Eq(v, x))
		return v
	}
	n := &bState{reg: map[string]*smt.Term{}, badKind: map[string]*smt.Term{}}
	for i, x := range st.pc {
		n.pc = append(n.pc, fv(fmt.Sprintf("pc%d", i), x))
	}
	names := make([]string, 0, len(st.reg))
	for k := range st.reg {
		names = append(names, k)
	}
	sort.Strings(names)
	for _, k := range names {
		n.reg[k] = fv("r."+k, st.reg[k])
	}
	for i, x := range st.mutex {
		n.mutex = append(n.mutex, fv(fmt.Sprintf("mu%d", i), x))
	}
	for i, x := range st.readers {
		n.readers = append(n.readers, fv(fmt.Sprintf("rd%d", i), x))
	}
	for i := range st.cnt {
		n.cnt = append(n.cnt, fv(fmt.Sprintf("cnt%d", i), st.cnt[i]))
		n.closed = append(n.closed, fv(fmt.Sprintf("closed%d", i), st.closed[i]))
		n.capv = append(n.capv, fv(fmt.Sprintf("cap%d", i), st.capv[i]))
	}
	n.nextC = fv("nextC", st.nextC)
	n.nextS = fv("nextS", st.nextS)
	for i := range st.slen {
		n.slen = append(n.slen, fv(fmt.Sprintf("slen%d", i), st.slen[i]))
		cells := make([]*smt.Term, len(st.scell[i]))
		for p := range cells {
			cells[p] = fv(fmt.Sprintf("sc%d_%d", i, p), st.scell[i][p])
		}
		n.scell = append(n.scell, cells)
	}
	for i, x := range st.cell {
		n.cell = append(n.cell, fv(fmt.Sprintf("cell%d", i), x))
	}
	for i, x := range st.wg {
		n.wg = append(n.wg, fv(fmt.Sprintf("wg%d", i), x))
	}
	for i, x := range st.slot {
		n.slot = append(n.slot, fv(fmt.Sprintf("slot%d", i), x))
	}
	n.bad = fv("bad", st.bad)
	for k, x := range st.badKind {
		n.badKind[k] = fv("bad."+k, x)
	}
	return n
}

type upd struct {
	g *smt.Term
	v *smt.Term
}

func applyUpd(old *smt.Term, us []upd) *smt.Term {
	r := old
	for i := len(us) - 1; i >= 0; i-- {
		r = smt.Ite(us[i].g, us[i].v, r)
	}
	return r
}

// sel reads arr[idx] for a symbolic index.
func (b *bmc) sel(arr []*smt.Term, idx *smt.Term) *smt.Term {
	if len(arr) == 0 {
		return b.c(0)
	}
	r := arr[len(arr)-1]
	for i := len(arr) - 2; i >= 0; i-- {
		r = smt.Ite(smt.Eq(idx, smt.BVC(idx.S.W, uint64(i))), arr[i], r)
	}
	return r
}

func (b *bmc) enabled(st *bState, n *bNode, memo map[*smt.Term]*smt.Term) *smt.Term {
	e := n.ev
	obj := func() *smt.Term { return b.subst(e.Obj, st, memo) }
	switch e.Kind {
	case "lock":
		o := obj()
		return smt.And(smt.Eq(b.sel(st.mutex, o), b.c(0)), smt.Eq(b.sel(st.readers, o), b.c(0)))
	case "rlock":
		return smt.Eq(b.sel(st.mutex, obj()), b.c(0))
	case "send":
		o := obj()
		return smt.Or(b.sel(st.closed, o), smt.ULt(b.sel(st.cnt, o), b.sel(st.capv, o)))
	case "recv":
		o := obj()
		return smt.Or(b.sel(st.closed, o), smt.Not(smt.Eq(b.sel(st.cnt, o), b.c(0))))
	case "wgwait":
		return smt.Eq(b.sel(st.wg, obj()), b.c(0))
	case "waitall":
		r := smt.True
		for i := 1; i < len(st.pc); i++ {
			r = smt.And(r, smt.Eq(st.pc[i], b.pcc(0)))
		}
		return r
	}
	return smt.True
}

// ---- partial-order reduction -------------------------------------------------
//
// One BMC step executes a *chain* of events of one thread: a leading run of
// invisible events (time stamps, harness marks), one visible event, and every
// following event that can be merged into the same step without losing
// behaviours (Lipton): invisible events, unlock (a left mover), accesses to
// objects that every other access protects with a common lock (both-movers),
// and loads of cells that no thread ever stores (constants).

func (b *bmc) classify() {
	b.stored = map[uint64]bool{}
	for _, th := range b.threads {
		for _, n := range th.nodes {
			if n.ev.Kind == "store" && n.ev.Obj.IsConst() {
				b.stored[n.ev.Obj.C] = true
			}
			if n.ev.Kind == "store" && !n.ev.Obj.IsConst() {
				b.allStored = true
			}
		}
	}
	b.fuse = map[*bNode]bool{}
	b.constLoad = map[*bNode]bool{}
	lockCommon := func(x, y *bNode) bool {
		for _, a := range x.ev.Locks {
			for _, c := range y.ev.Locks {
				if a == c {
					return true
				}
			}
		}
		return false
	}
	isAcc := func(k string) (class string, ok bool) {
		switch k {
		case "load", "store":
			return "cell", true
		case "seqappend", "seqremove", "seqlen", "seqsnap", "seqget", "seqclear":
			return "seq", true
		}
		return "", false
	}
	// phase 1: loads of cells that nobody stores
	for _, th := range b.threads {
		for _, n := range th.nodes {
			if n.ev.Kind == "load" && n.ev.Obj.IsConst() && !b.stored[n.ev.Obj.C] && !b.allStored {
				b.fuse[n] = true
				b.constLoad[n] = true
			}
		}
	}
	// a register can be folded to a constant only if every node that defines it is such a load of
	// the same content (register names are positional: branches may reuse a name for another event)
	b.constVal = map[string]int64{}
	{
		badName := map[string]bool{}
		for _, th := range b.threads {
			for _, n := range th.nodes {
				for _, r := range n.ev.Res {
					if b.constLoad[n] && int(n.ev.Obj.C) < len(b.meta.Cells) {
						v := b.meta.Cells[n.ev.Obj.C]
						if old, ok := b.constVal[r.Name]; ok && old != v {
							badName[r.Name] = true
						}
						b.constVal[r.Name] = v
					} else {
						badName[r.Name] = true
					}
				}
			}
		}
		for k := range badName {
			delete(b.constVal, k)
		}
		for _, th := range b.threads {
			for _, n := range th.nodes {
				if b.constLoad[n] {
					if _, ok := b.constVal[n.ev.Res[0].Name]; !ok {
						b.constLoad[n] = false // still invisible, but read from the cell when executed
					}
				}
			}
		}
	}
	resolve := func(t *smt.Term) (uint64, bool) {
		if t == nil {
			return 0, false
		}
		if t.IsConst() {
			return t.C, true
		}
		if t.Op == "var" {
			if v, ok := b.constVal[t.Name]; ok {
				return uint64(v), true
			}
		}
		return 0, false
	}
	for i, th := range b.threads {
		for _, n := range th.nodes {
			switch n.ev.Kind {
			case "end", "put", "get", "assert", "done", "panic", "cutoff", "unlock", "runlock", "pruned":
				b.fuse[n] = true
				continue
			case "load":
				if b.fuse[n] {
					continue
				}
			}
			cls, ok := isAcc(n.ev.Kind)
			if !ok {
				continue
			}
			protected := len(n.ev.Locks) > 0
			for j, oth := range b.threads {
				if j == i || !protected {
					continue
				}
				for _, m := range oth.nodes {
					c2, ok2 := isAcc(m.ev.Kind)
					if !ok2 || c2 != cls {
						continue
					}
					if a, ok1 := resolve(n.ev.Obj); ok1 {
						if c, ok2 := resolve(m.ev.Obj); ok2 && a != c {
							continue // provably different objects
						}
					}
					if !lockCommon(n, m) {
						protected = false
						break
					}
				}
			}
			if protected {
				b.fuse[n] = true
			}
		}
	}
}

// pruneRecv removes receive-succeeded branches that cannot be taken: along one path a thread cannot
// receive more values from a channel than the channel holds initially plus the largest number of
// sends to it on any path of every thread.  Each removed branch is replaced by a leaf that reports
// "internal: ... reached" if the model ever gets there, so the assumption is checked, not trusted
// (the same role as an unwinding assertion).  Only channels that exist at the start and are named by
// a constant (a cell nobody stores) take part.
func (b *bmc) pruneRecv() int {
	resolve := func(t *smt.Term) (int, bool) {
		if t == nil {
			return 0, false
		}
		if t.IsConst() {
			return int(t.C), true
		}
		if t.Op == "var" {
			if v, ok := b.constVal[t.Name]; ok {
				return int(v), true
			}
		}
		return 0, false
	}
	nch := len(b.meta.Chans)
	budget := make([]int, nch)
	for c := range budget {
		budget[c] = b.meta.Chans[c].Count
	}
	for _, th := range b.threads {
		if len(th.nodes) == 0 {
			continue
		}
		// max sends per channel over the paths of this thread
		var rec func(n *bNode) []int
		rec = func(n *bNode) []int {
			best := make([]int, nch)
			for _, c := range n.children {
				r := rec(c.to)
				for i := range best {
					if r[i] > best[i] {
						best[i] = r[i]
					}
				}
			}
			if n.ev.Kind == "send" {
				if c, ok := resolve(n.ev.Obj); ok {
					if c < nch {
						best[c]++
					}
				} else {
					for i := range best {
						best[i]++
					}
				}
			}
			return best
		}
		r := rec(th.nodes[0])
		for i := range budget {
			budget[i] += r[i]
		}
	}
	pruned := 0
	for _, th := range b.threads {
		if len(th.nodes) == 0 {
			continue
		}
		var walk func(n *bNode, got []int)
		walk = func(n *bNode, got []int) {
			for _, c := range n.children {
				g := got
				if n.ev.Kind == "recv" && len(n.ev.Res) > 0 {
					if ch, ok := resolve(n.ev.Obj); ok && ch < nch && needsOne(c.conds, n.ev.Res[0].Name) {
						if got[ch] >= budget[ch] {
							c.to = &bNode{ev: TraceEvent{Kind: "pruned", Pre: c.conds}}
							pruned++
							continue
						}
						g = append([]int(nil), got...)
						g[ch]++
					}
				}
				walk(c.to, g)
			}
		}
		walk(th.nodes[0], make([]int, nch))
		// rebuild the node list from what is still reachable
		entry := th.nodes[0]
		th.nodes = nil
		var collect func(n *bNode)
		collect = func(n *bNode) {
			n.id = len(th.nodes) + 1
			th.nodes = append(th.nodes, n)
			for _, c := range n.children {
				collect(c.to)
			}
		}
		collect(entry)
	}
	if pruned > 0 {
		b.classify()
	}
	return pruned
}

// needsOne: the branch condition contains (= reg 1).
func needsOne(conds []*smt.Term, reg string) bool {
	for _, c := range conds {
		if c.Op == "=" && len(c.Args) == 2 {
			x, y := c.Args[0], c.Args[1]
			if y.Op == "var" {
				x, y = y, x
			}
			if x.Op == "var" && x.Name == reg && y.IsConst() && y.C == 1 {
				return true
			}
		}
	}
	return false
}

// firstVisible follows a linear run of invisible events to the visible event that the step will execute.
func (b *bmc) vis(n *bNode) bool {
	if n.ev.Kind == "load" && b.fuse[n] && len(n.ev.Locks) == 0 {
		return false // load of a cell that nobody stores: a constant
	}
	return isVisible(n.ev.Kind)
}

func (b *bmc) firstVisible(n *bNode) *bNode {
	cur := n
	for !b.vis(cur) {
		if len(cur.children) != 1 || len(cur.children[0].conds) != 0 {
			return nil
		}
		cur = cur.children[0].to
	}
	return cur
}

// minStepDepth counts the steps along the shortest complete path of a thread (paths that end in a
// cut-off or a panic do not count).
func (b *bmc) minStepDepth(th *bThread) int {
	const inf = 1 << 30
	var rec func(n *bNode, inPrefix bool) int
	rec = func(n *bNode, inPrefix bool) int {
		if len(n.children) == 0 {
			if n.ev.Kind == "done" {
				return 0
			}
			return inf
		}
		best := inf
		nv := inPrefix && !b.vis(n)
		for _, c := range n.children {
			d := 0
			if b.fuse[c.to] || nv {
				d = rec(c.to, nv)
			} else {
				d = rec(c.to, b.firstVisible(c.to) != nil && !b.vis(c.to))
				if d < inf {
					d++
				}
			}
			if d < best {
				best = d
			}
		}
		return best
	}
	if len(th.nodes) == 0 {
		return 0
	}
	e := th.nodes[0]
	d := rec(e, b.firstVisible(e) != nil && !b.vis(e))
	if d >= inf {
		return 0
	}
	return 1 + d
}

// stepDepth counts the steps along the longest path of a thread.
func (b *bmc) stepDepth(th *bThread) int {
	var rec func(n *bNode, inPrefix bool) int
	rec = func(n *bNode, inPrefix bool) int {
		best := 0
		nv := inPrefix && !b.vis(n)
		for _, c := range n.children {
			d := 0
			if b.fuse[c.to] || nv {
				d = rec(c.to, nv)
			} else {
				d = 1 + rec(c.to, b.firstVisible(c.to) != nil && !b.vis(c.to))
			}
			if d > best {
				best = d
			}
		}
		return best
	}
	if len(th.nodes) == 0 {
		return 0
	}
	e := th.nodes[0]
	return 1 + rec(e, b.firstVisible(e) != nil && !b.vis(e))
}

func cloneState(st *bState) *bState {
	n := &bState{reg: map[string]*smt.Term{}, badKind: map[string]*smt.Term{}}
	n.pc = append([]*smt.Term(nil), st.pc...)
	for k, v := range st.reg {
		n.reg[k] = v
	}
	n.mutex = append([]*smt.Term(nil), st.mutex...)
	n.readers = append([]*smt.Term(nil), st.readers...)
	n.cnt = append([]*smt.Term(nil), st.cnt...)
	n.closed = append([]*smt.Term(nil), st.closed...)
	n.capv = append([]*smt.Term(nil), st.capv...)
	n.nextC, n.nextS = st.nextC, st.nextS
	n.slen = append([]*smt.Term(nil), st.slen...)
	for _, c := range st.scell {
		n.scell = append(n.scell, append([]*smt.Term(nil), c...))
	}
	n.cell = append([]*smt.Term(nil), st.cell...)
	n.wg = append([]*smt.Term(nil), st.wg...)
	n.slot = append([]*smt.Term(nil), st.slot...)
	n.bad = st.bad
	for k, v := range st.badKind {
		n.badKind[k] = v
	}
	return n
}

func (st *bState) markBad(kind string, g *smt.Term) {
	st.bad = smt.Or(st.bad, g)
	if old, ok := st.badKind[kind]; ok {
		st.badKind[kind] = smt.Or(old, g)
	} else {
		st.badKind[kind] = g
	}
}

// apply performs the effect of one event (guarded by g) on st in place.
func (b *bmc) apply(st *bState, i int, n *bNode, g *smt.Term, t int) {
	memo := map[*smt.Term]*smt.Term{}
	e := n.ev
	var obj *smt.Term
	if e.Obj != nil {
		obj = b.subst(e.Obj, st, memo)
	}
	arg := func(k int) *smt.Term { return b.subst(e.Args[k], st, memo) }
	setReg := func(k int, v *smt.Term) {
		r := e.Res[k]
		if v.S != r.S {
			if v.S.K == smt.KBool {
				v = smt.Ite(v, smt.BVC(r.S.W, 1), smt.BVC(r.S.W, 0))
			} else {
				v = smt.Resize(v, r.S.W, false)
			}
		}
		st.reg[r.Name] = smt.Ite(g, v, st.reg[r.Name])
	}
	set := func(arr []*smt.Term, k int, gk, v *smt.Term) { arr[k] = smt.Ite(gk, v, arr[k]) }
	forObj := func(cnt int, f func(k int, gk *smt.Term)) {
		for k := 0; k < cnt; k++ {
			f(k, smt.And(g, smt.Eq(obj, b.c(k))))
		}
	}
	switch e.Kind {
	case "lock":
		forObj(len(st.mutex), func(k int, gk *smt.Term) { set(st.mutex, k, gk, b.c(i+1)) })
	case "rlock":
		forObj(len(st.readers), func(k int, gk *smt.Term) { set(st.readers, k, gk, smt.Add(st.readers[k], b.c(1))) })
	case "runlock":
		st.markBad("runlock-of-unlocked-rwmutex", smt.And(g, smt.Eq(b.sel(st.readers, obj), b.c(0))))
		forObj(len(st.readers), func(k int, gk *smt.Term) { set(st.readers, k, gk, smt.Sub(st.readers[k], b.c(1))) })
	case "unlock":
		st.markBad("unlock-of-unlocked-mutex", smt.And(g, smt.Eq(b.sel(st.mutex, obj), b.c(0))))
		forObj(len(st.mutex), func(k int, gk *smt.Term) { set(st.mutex, k, gk, b.c(0)) })
	case "load":
		if b.constLoad[n] {
			break // the register holds the constant from the start
		}
		setReg(0, b.sel(st.cell, obj))
	case "store":
		v := arg(0)
		forObj(len(st.cell), func(k int, gk *smt.Term) { set(st.cell, k, gk, v) })
	case "makechan":
		setReg(0, st.nextC)
		cp := arg(0)
		old := st.nextC
		for k := 0; k < b.NC; k++ {
			gk := smt.And(g, smt.Eq(old, b.c(k)))
			set(st.cnt, k, gk, b.c(0))
			set(st.closed, k, gk, smt.False)
			set(st.capv, k, gk, cp)
		}
		st.nextC = smt.Ite(g, smt.Add(old, b.c(1)), old)
	case "send":
		cl := b.sel(st.closed, obj)
		st.markBad("send-on-closed-channel", smt.And(g, cl))
		cnt := append([]*smt.Term(nil), st.cnt...)
		forObj(b.NC, func(k int, gk *smt.Term) { set(st.cnt, k, smt.And(gk, smt.Not(cl)), smt.Add(cnt[k], b.c(1))) })
	case "recv":
		has := smt.Not(smt.Eq(b.sel(st.cnt, obj), b.c(0)))
		setReg(0, has)
		cnt := append([]*smt.Term(nil), st.cnt...)
		forObj(b.NC, func(k int, gk *smt.Term) { set(st.cnt, k, smt.And(gk, has), smt.Sub(cnt[k], b.c(1))) })
	case "close":
		st.markBad("close-of-closed-channel", smt.And(g, b.sel(st.closed, obj)))
		forObj(b.NC, func(k int, gk *smt.Term) { set(st.closed, k, gk, smt.True) })
	case "len":
		setReg(0, b.sel(st.cnt, obj))
	case "seqnew":
		setReg(0, st.nextS)
		old := st.nextS
		for k := 0; k < b.NS; k++ {
			gk := smt.And(g, smt.Eq(old, b.c(k)))
			set(st.slen, k, gk, b.c(len(e.Args)))
			for p := 0; p < b.L; p++ {
				v := b.c(0)
				if p < len(e.Args) {
					v = arg(p)
				}
				set(st.scell[k], p, gk, v)
			}
		}
		st.nextS = smt.Ite(g, smt.Add(old, b.c(1)), old)
	case "seqappend":
		v := arg(0)
		ln := b.sel(st.slen, obj)
		st.markBad("sequence-bound-exceeded", smt.And(g, smt.Eq(ln, b.c(b.L))))
		forObj(b.NS, func(k int, gk *smt.Term) {
			oldLen := st.slen[k]
			for p := 0; p < b.L; p++ {
				set(st.scell[k], p, smt.And(gk, smt.Eq(oldLen, b.c(p))), v)
			}
			set(st.slen, k, gk, smt.Add(oldLen, b.c(1)))
		})
	case "seqremove":
		idx := arg(0)
		ln := b.sel(st.slen, obj)
		inRange := smt.And(smt.ULe(b.c(1), idx), smt.ULe(idx, ln))
		st.markBad("index-out-of-range-in-shared-sequence", smt.And(g, smt.Not(inRange)))
		val := b.c(0)
		for k := b.NS - 1; k >= 0; k-- {
			val = smt.Ite(smt.Eq(obj, b.c(k)), b.sel(st.scell[k], smt.Sub(idx, b.c(1))), val)
		}
		setReg(0, val)
		forObj(b.NS, func(k int, gk *smt.Term) {
			gg := smt.And(gk, inRange)
			old := append([]*smt.Term(nil), st.scell[k]...)
			for p := 0; p < b.L; p++ {
				nv := b.c(0)
				if p+1 < b.L {
					nv = old[p+1]
				}
				set(st.scell[k], p, smt.And(gg, smt.ULe(idx, b.c(p+1))), nv)
			}
			set(st.slen, k, gg, smt.Sub(st.slen[k], b.c(1)))
		})
	case "seqget":
		idx := arg(0)
		ln := b.sel(st.slen, obj)
		inRange := smt.And(smt.ULe(b.c(1), idx), smt.ULe(idx, ln))
		st.markBad("index-out-of-range-in-shared-sequence", smt.And(g, smt.Not(inRange)))
		val := b.c(0)
		for k := b.NS - 1; k >= 0; k-- {
			val = smt.Ite(smt.Eq(obj, b.c(k)), b.sel(st.scell[k], smt.Sub(idx, b.c(1))), val)
		}
		setReg(0, val)
	case "seqclear":
		forObj(b.NS, func(k int, gk *smt.Term) { set(st.slen, k, gk, b.c(0)) })
	case "seqlen":
		setReg(0, b.sel(st.slen, obj))
	case "seqsnap":
		setReg(0, b.sel(st.slen, obj))
		for p := 0; p+1 < len(e.Res) && p < b.L; p++ {
			val := b.c(0)
			for k := b.NS - 1; k >= 0; k-- {
				val = smt.Ite(smt.Eq(obj, b.c(k)), st.scell[k][p], val)
			}
			setReg(1+p, val)
		}
	case "wgadd":
		d := arg(0)
		forObj(len(st.wg), func(k int, gk *smt.Term) { set(st.wg, k, gk, smt.Add(st.wg[k], d)) })
	case "wgdone":
		st.markBad("negative-waitgroup-counter", smt.And(g, smt.Eq(b.sel(st.wg, obj), b.c(0))))
		forObj(len(st.wg), func(k int, gk *smt.Term) { set(st.wg, k, gk, smt.Sub(st.wg[k], b.c(1))) })
	case "helpersdone":
		all := smt.True
		for _, h := range b.meta.Helpers {
			if h < len(st.pc) {
				all = smt.And(all, smt.Eq(st.pc[h], b.pcc(0)))
			}
		}
		setReg(0, all)
	case "wgwait", "waitall", "done":
	case "begin", "end":
		setReg(0, b.c(t+1))
	case "put":
		k := b.slots[e.Label]
		st.slot[k] = smt.Ite(g, arg(0), st.slot[k])
	case "get":
		setReg(0, st.slot[b.slots[e.Label]])
	case "assert":
		st.markBad("assert:"+e.Label, smt.And(g, smt.Not(arg(0))))
	case "panic":
		st.markBad("panic: "+e.Text, g)
	case "cutoff":
		st.markBad("event-bound-exceeded", g)
	case "pruned":
		st.markBad("internal: a receive branch pruned as infeasible was reached", g)
	}
}

// run executes the chain of events starting at n (guard g) and sets the thread's pc.
func (b *bmc) run(st *bState, i int, n *bNode, g *smt.Term, t int, inPrefix bool, nTrans *int) {
	*nTrans++
	b.apply(st, i, n, g, t)
	if len(n.children) == 0 {
		st.pc[i] = smt.Ite(g, b.pcc(0), st.pc[i])
		return
	}
	nv := inPrefix && !b.vis(n)
	rest := g
	for ci, c := range n.children {
		gc := rest
		if ci < len(n.children)-1 {
			memo := map[*smt.Term]*smt.Term{}
			cond := smt.True
			for _, cnd := range c.conds {
				cond = smt.And(cond, b.subst(cnd, st, memo))
			}
			gc = smt.And(rest, cond)
			rest = smt.And(rest, smt.Not(cond))
		}
		if b.fuse[c.to] || nv {
			b.run(st, i, c.to, gc, t, nv, nTrans)
		} else {
			st.pc[i] = smt.Ite(gc, b.pcc(c.to.id), st.pc[i])
		}
	}
}

// step computes the successor state under schedule variable sched.
func (b *bmc) step(st0 *bState, sched *smt.Term, t int, nTrans *int) (*bState, *smt.Term) {
	st := cloneState(st0)
	anyEnabled := smt.False
	schedEnabled := smt.False
	for i, th := range b.threads {
		for _, n := range th.nodes {
			if !b.starts[n] {
				continue
			}
			memo := map[*smt.Term]*smt.Term{}
			at := smt.Eq(st0.pc[i], b.pcc(n.id))
			vis := n
			prefix := false
			if !b.vis(n) {
				if fv := b.firstVisible(n); fv != nil {
					vis, prefix = fv, true
				}
			}
			en := smt.True
			if b.vis(vis) {
				en = b.enabled(st0, vis, memo)
			}
			can := smt.And(at, en)
			anyEnabled = smt.Or(anyEnabled, can)
			g := smt.And(smt.Eq(sched, b.c(i)), can)
			schedEnabled = smt.Or(schedEnabled, g)
			b.run(st, i, n, g, t, prefix, nTrans)
		}
	}
	r := b.pr.Ref(smt.Implies(anyEnabled, schedEnabled))
	b.s.Send(b.pr.Flush())
	b.s.Send("(assert " + r + ")\n")
	return st, anyEnabled
}

// raceAt: two threads are about to perform conflicting accesses with no common lock.
func (b *bmc) raceAt(st *bState) *smt.Term {
	memo := map[*smt.Term]*smt.Term{}
	type acc struct {
		th    int
		n     *bNode
		class string // "cell" or "seq"
		write bool
	}
	var accs []acc
	for i, th := range b.threads {
		for _, n := range th.nodes {
			switch n.ev.Kind {
			case "load":
				accs = append(accs, acc{i, n, "cell", false})
			case "store":
				accs = append(accs, acc{i, n, "cell", true})
			case "seqappend", "seqremove", "seqclear":
				accs = append(accs, acc{i, n, "seq", true})
			case "seqlen", "seqsnap", "seqget":
				accs = append(accs, acc{i, n, "seq", false})
			}
		}
	}
	r := smt.False
	for x := 0; x < len(accs); x++ {
		for y := x + 1; y < len(accs); y++ {
			a, c := accs[x], accs[y]
			if a.th == c.th || a.class != c.class || (!a.write && !c.write) {
				continue
			}
			common := false
			for _, la := range a.n.ev.Locks {
				for _, lc := range c.n.ev.Locks {
					if la == lc {
						common = true
					}
				}
			}
			if common {
				continue
			}
			same := smt.Eq(b.subst(a.n.ev.Obj, st, memo), b.subst(c.n.ev.Obj, st, memo))
			r = smt.Or(r, smt.And(smt.And(smt.Eq(st.pc[a.th], b.pcc(a.n.id)), smt.Eq(st.pc[c.th], b.pcc(c.n.id))), same))
		}
	}
	return r
}

// ModelCheck extracts the event trees of every thread of a traced harness and runs the BMC.
func ModelCheck(pr *Program, pkgPath, harness string, params []int, solverBin string, timeoutMs int, wantRace bool, maxEvents int, hunt bool) *BMCResult {
	if maxEvents == 0 {
		maxEvents = 400
	}
	base := RunConfig{PkgPath: pkgPath, Harness: harness, Params: params, MaxSteps: 8000000, MaxDepth: 400, MaxMake: 64,
		Workers: 4, SolverBin: "z3", TimeoutMs: 20000, MapOrderMax: 3, TraceOn: true, MaxEvents: maxEvents}
	var traces [][][]TraceEvent
	var meta *Tracer
	nThreads := 1
	for th := 0; th < nThreads; th++ {
		cfg := base
		cfg.TraceThread = th
		r := pr.Run(cfg)
		if len(r.Aborts) > 0 {
			return &BMCResult{Verdict: "unsupported", Detail: fmt.Sprintf("thread %d: %s: %s", th, r.Aborts[0].Label, r.Aborts[0].Detail)}
		}
		if len(r.Violations) > 0 {
			return &BMCResult{Verdict: "unsupported", Detail: fmt.Sprintf("thread %d: extraction hit %s", th, r.Violations[0].Label)}
		}
		if r.TraceMeta == nil {
			return &BMCResult{Verdict: "unsupported", Detail: fmt.Sprintf("thread %d produced no events (missing vf.TraceStart / vf.WaitAll?)", th)}
		}
		if th == 0 {
			meta = r.TraceMeta
			nThreads = meta.NThreads
		}
		traces = append(traces, r.Traces)
	}
	return RunBMC(meta, traces, solverBin, timeoutMs, wantRace, hunt)
}

// ---- partial-order reduction by canonical schedules ------------------------------------------
//
// Two steps of different threads are independent when the sets of objects their chains may touch
// (over every branch of the chain) are disjoint; then they commute and neither enables or disables
// the other.  Every execution is equivalent to the lexicographically least one of its
// Mazurkiewicz trace, in which no step of thread j directly follows an independent step of a thread
// i > j, so asserting that for every adjacent pair keeps one representative of every trace.
// Equivalent executions reach the same final state and raise the same assertion failures.  Time
// stamps (begin/end) share the token CLK, so steps that take one never commute.  waitall, and -
// for the race query, which inspects intermediate states - every unprotected access that takes part
// in a candidate race, are dependent on everything.

func (b *bmc) footprints(wantRace bool) {
	b.foot = map[*bNode]map[string]bool{}
	resolve := func(t *smt.Term) (uint64, bool) {
		if t == nil {
			return 0, false
		}
		if t.IsConst() {
			return t.C, true
		}
		if t.Op == "var" {
			if v, ok := b.constVal[t.Name]; ok {
				return uint64(v), true
			}
		}
		return 0, false
	}
	tok := func(cls string, obj *smt.Term) string {
		if id, ok := resolve(obj); ok {
			return fmt.Sprintf("%s%d", cls, id)
		}
		return cls + "*"
	}
	racy := map[*bNode]bool{}
	if wantRace {
		type acc struct {
			th    int
			n     *bNode
			class string
			write bool
		}
		var accs []acc
		for i, th := range b.threads {
			for _, n := range th.nodes {
				switch n.ev.Kind {
				case "load":
					accs = append(accs, acc{i, n, "cell", false})
				case "store":
					accs = append(accs, acc{i, n, "cell", true})
				case "seqappend", "seqremove", "seqclear":
					accs = append(accs, acc{i, n, "seq", true})
				case "seqlen", "seqsnap", "seqget":
					accs = append(accs, acc{i, n, "seq", false})
				}
			}
		}
		for x := 0; x < len(accs); x++ {
			for y := x + 1; y < len(accs); y++ {
				a, c := accs[x], accs[y]
				if a.th == c.th || a.class != c.class || (!a.write && !c.write) {
					continue
				}
				common := false
				for _, la := range a.n.ev.Locks {
					for _, lc := range c.n.ev.Locks {
						if la == lc {
							common = true
						}
					}
				}
				if !common {
					racy[a.n], racy[c.n] = true, true
				}
			}
		}
	}
	tokens := func(n *bNode, f map[string]bool) {
		e := n.ev
		if racy[n] {
			f["ALL"] = true
		}
		switch e.Kind {
		case "lock", "unlock", "rlock", "runlock":
			f[tok("M", e.Obj)] = true
		case "send", "recv", "close", "len":
			f[tok("C", e.Obj)] = true
		case "makechan":
			f["C*"] = true
		case "load":
			if !b.constLoad[n] && !(b.fuse[n] && len(e.Locks) == 0) {
				f[tok("X", e.Obj)] = true
			}
		case "store":
			f[tok("X", e.Obj)] = true
		case "seqnew":
			f["S*"] = true
		case "seqappend", "seqremove", "seqget", "seqclear", "seqlen", "seqsnap":
			f[tok("S", e.Obj)] = true
		case "wgadd", "wgdone", "wgwait":
			f[tok("W", e.Obj)] = true
		case "begin", "end":
			f["CLK"] = true
		case "put", "get":
			f["P"+e.Label] = true
		case "waitall", "helpersdone":
			f["ALL"] = true
		case "assert", "panic", "cutoff", "pruned", "done":
		default:
			f["ALL"] = true
		}
	}
	for _, th := range b.threads {
		for _, n := range th.nodes {
			if !b.starts[n] {
				continue
			}
			f := map[string]bool{}
			var chain func(m *bNode, inPrefix bool)
			chain = func(m *bNode, inPrefix bool) {
				tokens(m, f)
				nv := inPrefix && !b.vis(m)
				for _, c := range m.children {
					if b.fuse[c.to] || nv {
						chain(c.to, nv)
					}
				}
			}
			chain(n, !b.vis(n) && b.firstVisible(n) != nil)
			b.foot[n] = f
		}
	}
}

func footDependent(f, g map[string]bool) bool {
	if f["ALL"] || g["ALL"] {
		return true
	}
	for k := range f {
		if g[k] {
			return true
		}
		if len(k) >= 2 {
			cls := k[:1]
			if cls == "M" || cls == "C" || cls == "X" || cls == "S" || cls == "W" {
				if k[1:] == "*" {
					for h := range g {
						if h[:1] == cls {
							return true
						}
					}
				} else if g[cls+"*"] {
					return true
				}
			}
		}
	}
	return false
}

// indepAt: threads i and j stand at start nodes whose steps are independent.
func (b *bmc) indepAt(i, j int, pcs []*smt.Term) *smt.Term {
	r := smt.False
	for _, ni := range b.threads[i].nodes {
		if !b.starts[ni] {
			continue
		}
		inner := smt.False
		for _, nj := range b.threads[j].nodes {
			if !b.starts[nj] {
				continue
			}
			if !footDependent(b.foot[ni], b.foot[nj]) {
				inner = smt.Or(inner, smt.Eq(pcs[j], b.pcc(nj.id)))
			}
		}
		r = smt.Or(r, smt.And(smt.Eq(pcs[i], b.pcc(ni.id)), inner))
	}
	return r
}
