package sym

import (
	"fmt"
	"go/types"
	"strings"

	"golang.org/x/tools/go/ssa"

	"verif/engine/smt"
)

// callVF implements the harness primitives of package zzvf.
func (ex *Exec) callVF(caller *frame, fn *ssa.Function, args []Value) (Value, bool) {
	P := ex.P
	name := fn.Name()
	str := func(i int) string {
		s, ok := args[i].(string)
		if !ok {
			ex.abort("vf.%s: name argument must be a constant string", name)
		}
		return s
	}
	cint := func(i int) int {
		v, ok := concInt(args[i])
		if !ok {
			ex.abort("vf.%s: size argument must be concrete", name)
		}
		return int(v)
	}
	fresh := func(nm string, w int) *smt.Term { return P.newInput(nm, smt.BV(w)) }
	switch name {
	case "Int", "Int64", "Uint", "Uint64":
		return fresh(str(0), 64), true
	case "Int32", "Uint32", "Rune":
		return fresh(str(0), 32), true
	case "Int16", "Uint16":
		return fresh(str(0), 16), true
	case "Int8", "Uint8", "Byte":
		return fresh(str(0), 8), true
	case "Bool":
		return smt.Eq(fresh(str(0), 1), smt.BVC(1, 1)), true
	case "Float64":
		return smt.BitsToFP(fresh(str(0), 64)), true
	case "Float32":
		return smt.BitsToFP(fresh(str(0), 32)), true
	case "Ints":
		n := cint(1)
		out := make(Slice, n)
		for i := range out {
			out[i] = fresh(fmt.Sprintf("%s[%d]", str(0), i), 64)
		}
		return out, true
	case "Float64s":
		n := cint(1)
		out := make(Slice, n)
		for i := range out {
			out[i] = smt.BitsToFP(fresh(fmt.Sprintf("%s[%d]", str(0), i), 64))
		}
		return out, true
	case "Bytes":
		n := cint(1)
		out := make(Slice, n)
		for i := range out {
			out[i] = fresh(fmt.Sprintf("%s[%d]", str(0), i), 8)
		}
		return out, true
	case "String":
		n := cint(1)
		b := make([]*smt.Term, n)
		for i := range b {
			b[i] = fresh(fmt.Sprintf("%s[%d]", str(0), i), 8)
		}
		return mkStr(b), true
	case "Choice":
		k := cint(1)
		P.nChoice++
		v := fresh(fmt.Sprintf("%s#%d", str(0), P.nChoice), 64)
		P.assert(smt.ULt(v, smt.BVC(64, uint64(k))))
		return v, true
	case "UF1":
		return P.ufApply("uf_"+str(0), 64, args[1].(*smt.Term)), true
	case "UF2":
		return P.ufApply("uf_"+str(0), 64, args[1].(*smt.Term), args[2].(*smt.Term)), true
	case "Rank1":
		// uninterpreted function into 0..15 (enough to induce every total preorder on <= 16 values)
		t := P.ufApply("uf_"+str(0), 4, args[1].(*smt.Term))
		return smt.Resize(t, 64, false), true
	case "SameTerms":
		// true iff the two slices hold the same multiset of *syntactically identical* terms
		a, b := args[0].(Slice), args[1].(Slice)
		if len(a) != len(b) {
			return smt.False, true
		}
		cnt := map[[2]uint64]int{}
		for _, x := range a {
			cnt[x.(*smt.Term).Key()]++
		}
		for _, x := range b {
			cnt[x.(*smt.Term).Key()]--
		}
		for _, v := range cnt {
			if v != 0 {
				return smt.False, true
			}
		}
		return smt.True, true
	case "Assume":
		c := args[0].(*smt.Term)
		if c.IsConst() {
			if c.C == 0 {
				panic(pathEnd{"assume-false"})
			}
			return nil, true
		}
		if P.checkWith(c) == smt.Unsat {
			panic(pathEnd{"assume-false"})
		}
		P.assert(c)
		return nil, true
	case "Assert":
		if ex.tr != nil && ex.trOn() {
			ex.tr.emit(ex, TraceEvent{Kind: "assert", Label: str(0), Args: []*smt.Term{args[1].(*smt.Term)}})
			return nil, true
		}
		P.checkAssert(str(0), args[1].(*smt.Term))
		return nil, true
	case "And":
		return smt.And(args[0].(*smt.Term), args[1].(*smt.Term)), true
	case "Or":
		return smt.Or(args[0].(*smt.Term), args[1].(*smt.Term)), true
	case "Not":
		return smt.Not(args[0].(*smt.Term)), true
	case "Implies":
		return smt.Implies(args[0].(*smt.Term), args[1].(*smt.Term)), true
	case "Iff":
		return smt.Eq(args[0].(*smt.Term), args[1].(*smt.Term)), true
	case "IteInt":
		return smt.Ite(args[0].(*smt.Term), args[1].(*smt.Term), args[2].(*smt.Term)), true
	case "SameFloat":
		// bitwise identity up to NaN payload: both NaN, or equal with equal sign
		a, b := args[0].(*smt.Term), args[1].(*smt.Term)
		return smt.Eq(a, b), true
	case "StrEq":
		return ex.strEq(args[0], args[1]), true
	case "StrLess":
		return ex.strLess(args[0], args[1]), true
	case "Class":
		P.classes[str(0)] = args[1].(*smt.Term)
		return nil, true
	case "Reach":
		P.event(Event{Kind: EvReach, Label: str(0)})
		return nil, true
	case "Observe":
		P.event(Event{Kind: EvObserve, Label: str(0), Detail: describe(args[1])})
		return nil, true
	case "Panics":
		pk, rt, msg := ex.vfPanics(caller, args[0])
		_ = msg
		return Tuple{smt.BoolC(pk), smt.BoolC(rt)}, true
	case "PanicText":
		pk, rt, msg := ex.vfPanics(caller, args[0])
		var m Value = ""
		if pk {
			m = msg
		}
		return Tuple{smt.BoolC(pk), smt.BoolC(rt), m}, true
	case "Par":
		if ex.accessLog == nil {
			ex.accessLog = &AccessLog{}
		}
		ex.accessLog.tag = 1
		ex.call(caller, args[0], nil)
		ex.accessLog.tag = 2
		ex.call(caller, args[1], nil)
		ex.accessLog.tag = 0
		return nil, true
	case "Share":
		if ex.tr != nil {
			ex.trShare(args[0])
		}
		return nil, true
	case "ShareWG":
		if ex.tr != nil {
			ex.trShareWG(args[0].(*Value))
		}
		return nil, true
	case "EventBound":
		if ex.tr != nil {
			ex.tr.MaxEvents = cint(0)
		}
		return nil, true
	case "TraceStart":
		if ex.tr != nil {
			ex.trStart()
		}
		return nil, true
	case "Go":
		ex.spawningHarness = true
		ex.spawn(caller, args[0], nil)
		ex.spawningHarness = false
		return nil, true
	case "HelpersDone":
		if ex.tr != nil && ex.trOn() {
			r := ex.tr.fresh(ex, 1)
			ex.tr.emit(ex, TraceEvent{Kind: "helpersdone", Res: []*smt.Term{r}})
			return smt.Eq(r, smt.BVC(1, 1)), true
		}
		for _, g := range ex.gs {
			if g.id != 0 && !g.harness && !g.done {
				return smt.False, true
			}
		}
		return smt.True, true
	case "WaitAll":
		if ex.tr != nil {
			ex.trWaitAll()
			return nil, true
		}
		n := ex.quiesce()
		if n > 0 {
			P.failHere("deadlock", ex.describeBlocked())
			panic(pathEnd{"deadlock-known"})
		}
		return nil, true
	case "Begin", "End":
		if ex.tr != nil && ex.trOn() {
			r := ex.tr.fresh(ex, regW)
			ex.tr.emit(ex, TraceEvent{Kind: strings.ToLower(name), Res: []*smt.Term{r}})
			return wide(r), true
		}
		ex.clock++
		return smt.BVC(64, uint64(ex.clock)), true
	case "Put":
		if ex.tr != nil && ex.trOn() {
			ex.tr.emit(ex, TraceEvent{Kind: "put", Obj: rc(uint64(ex.tr.slot(str(0)))), Args: []*smt.Term{narrow(args[1].(*smt.Term))}, Label: str(0)})
			return nil, true
		}
		if ex.slots == nil {
			ex.slots = map[string]*smt.Term{}
		}
		ex.slots[str(0)] = args[1].(*smt.Term)
		return nil, true
	case "Get":
		if ex.tr != nil && ex.trOn() {
			r := ex.tr.fresh(ex, regW)
			ex.tr.emit(ex, TraceEvent{Kind: "get", Obj: rc(uint64(ex.tr.slot(str(0)))), Res: []*smt.Term{r}, Label: str(0)})
			return smt.Resize(r, 64, false), true
		}
		if v, ok := ex.slots[str(0)]; ok {
			return v, true
		}
		return smt.BVC(64, 0), true
	case "Pause":
		return nil, true // native replay only: the observing thread waits a random moment
	case "Track":
		if ex.accessLog == nil {
			ex.accessLog = &AccessLog{}
		}
		ex.accessLog.tag = cint(0)
		return nil, true
	case "Interference", "InterferenceG":
		if ex.accessLog == nil {
			return smt.BVC(64, 0), true
		}
		cs := ex.accessLog.conflicts(name == "Interference")
		for i, c := range cs {
			if i < 5 {
				P.event(Event{Kind: EvObserve, Label: "interference", Detail: c})
			}
		}
		return smt.BVC(64, uint64(len(cs))), true
	case "KnownText":
		if isOpaque(args[0]) {
			return knownText(args[0]), true
		}
		if sv, ok := args[0].(*SymStr); ok {
			return knownText(&SymStr{Opaque: true, Segs: []Value{sv}}), true
		}
		return args[0], true
	case "Quiesce":
		return smt.BVC(64, uint64(ex.quiesce())), true
	case "Symbolic":
		return smt.True, true
	case "Concrete":
		// Concrete(x, lo, hi): fork over the values of x in [lo,hi]; assumes x is in range.
		lo, hi := cint(1), cint(2)
		v, ok := P.concretize(args[0].(*smt.Term), int64(lo), int64(hi), true)
		if !ok {
			panic(pathEnd{"assume-false"})
		}
		return smt.BVC(64, uint64(v)), true
	case "Budget":
		// Budget(n): lower the step budget for the rest of the path (hang detection for cheap calls)
		ex.MaxSteps = ex.Steps + cint(0)
		return nil, true
	case "BudgetReset":
		ex.MaxSteps = ex.baseMaxSteps
		return nil, true
	}
	if strings.HasPrefix(name, "init") {
		return nil, true
	}
	return nil, false
}

// vfPanics runs the closure and reports whether it panicked and how.
func (ex *Exec) vfPanics(caller *frame, f Value) (panicked, runtimeErr bool, msg Value) {
	depth := ex.Depth
	heldLen := len(ex.cur.held)
	_ = heldLen
	func() {
		defer func() {
			r := recover()
			if r == nil {
				return
			}
			gp, ok := r.(*goPanic)
			if !ok {
				panic(r)
			}
			ex.Depth = depth
			panicked, runtimeErr = true, gp.Runtime
			msg = ""
			if itf, ok := gp.V.(Iface); ok {
				if types.Identical(itf.T, types.Typ[types.String]) || itf.T == runtimeErrorType {
					msg = itf.V
				} else {
					msg = "<" + rtypeString(itf.T, false) + ">"
				}
			}
		}()
		ex.call(caller, f, nil)
	}()
	return
}
