package main

import (
	"flag"
	"fmt"
	"os"
	"runtime/pprof"
	"strconv"
	"strings"

	"verif/engine/sym"
)

func main() {
	if len(os.Args) < 2 {
		fmt.Fprintln(os.Stderr, "usage: gosym run|check ...")
		os.Exit(2)
	}
	switch os.Args[1] {
	case "run":
		cmdRun(os.Args[2:])
	case "check":
		cmdCheck(os.Args[2:])
	case "replay":
		cmdReplay(os.Args[2:])
	case "trace":
		cmdTrace(os.Args[2:])
	case "bmc":
		cmdBMC(os.Args[2:])
	default:
		fmt.Fprintln(os.Stderr, "unknown command", os.Args[1])
		os.Exit(2)
	}
}

func loadProgram(repo, harnessDir string) (*sym.Program, error) {
	ov := map[string][]byte{}
	if err := sym.OverlayFromDir(harnessDir, repo, ov); err != nil {
		return nil, err
	}
	return sym.Load(repo, ov, "verif")
}

// cmdRun: run one harness instance (development aid).
func cmdRun(args []string) {
	fs := flag.NewFlagSet("run", flag.ExitOnError)
	repo := fs.String("repo", "/repo/v4", "module root")
	hdir := fs.String("harness", "/verif/harness", "harness overlay directory")
	pkg := fs.String("pkg", "zzvh", "harness package (relative to module path)")
	name := fs.String("fn", "", "harness function")
	params := fs.String("params", "", "comma separated int parameters")
	workers := fs.Int("workers", 8, "")
	steps := fs.Int("steps", 2000000, "")
	solver := fs.String("solver", "z3", "")
	verbose := fs.Bool("v", false, "")
	prof := fs.String("cpuprofile", "", "")
	sticky := fs.Bool("sticky", false, "one iteration order per map object")
	mapOrder := fs.Int("maporder", 3, "")
	sched := fs.Bool("sched", false, "explore interleavings")
	fs.Parse(args)
	if *prof != "" {
		f, _ := os.Create(*prof)
		pprof.StartCPUProfile(f)
		defer pprof.StopCPUProfile()
	}
	pr, err := loadProgram(*repo, *hdir)
	if err != nil {
		fmt.Fprintln(os.Stderr, "load:", err)
		os.Exit(2)
	}
	var ps []int
	if *params != "" {
		for _, s := range strings.Split(*params, ",") {
			v, _ := strconv.Atoi(s)
			ps = append(ps, v)
		}
	}
	cfg := sym.RunConfig{PkgPath: pr.ModPath + "/" + *pkg, Harness: *name, Params: ps, MaxSteps: *steps, MaxDepth: 400, MaxMake: 64,
		Workers: *workers, SolverBin: *solver, TimeoutMs: 20000, MapOrderMax: *mapOrder, MapOrderSticky: *sticky, SchedChoice: *sched}
	res := pr.Run(cfg)
	fmt.Println(res.Summary())
	for _, v := range res.Violations {
		fmt.Printf("  VIOLATION %s %s model=%v choices=%v\n", v.Label, v.Detail, v.Model, v.Choices)
	}
	for _, v := range res.Known {
		fmt.Printf("  KNOWN %s %s\n", v.Label, v.Detail)
	}
	for _, v := range res.Unknown {
		fmt.Printf("  UNKNOWN %s %s\n", v.Label, v.Detail)
	}
	for _, v := range res.Aborts {
		fmt.Printf("  ABORT %s %s\n", v.Label, v.Detail)
	}
	for _, o := range res.Observes {
		fmt.Printf("  OBSERVE %s = %s\n", o.Label, o.Detail)
	}
	if *verbose {
		for k, v := range res.Funcs {
			fmt.Printf("  fn %s x%d\n", k, v)
		}
		for k, v := range res.Stubs {
			fmt.Printf("  stub %s x%d\n", k, v)
		}
	}
}

// cmdTrace: print the event trees of a concurrent harness (development aid).
func cmdTrace(args []string) {
	fs := flag.NewFlagSet("trace", flag.ExitOnError)
	repo := fs.String("repo", "/repo/v4", "module root")
	hdir := fs.String("harness", "/verif/harness", "harness overlay directory")
	name := fs.String("fn", "", "harness function")
	params := fs.String("params", "", "")
	thread := fs.Int("thread", 0, "")
	fs.Parse(args)
	pr, err := loadProgram(*repo, *hdir)
	if err != nil {
		fmt.Fprintln(os.Stderr, "load:", err)
		os.Exit(2)
	}
	var ps []int
	for _, s := range strings.Split(*params, ",") {
		v, _ := strconv.Atoi(s)
		ps = append(ps, v)
	}
	cfg := sym.RunConfig{PkgPath: pr.ModPath + "/zzvh", Harness: *name, Params: ps, MaxSteps: 5000000, MaxDepth: 400, MaxMake: 64,
		Workers: 4, SolverBin: "z3", TimeoutMs: 20000, MapOrderMax: 3, TraceOn: true, TraceThread: *thread, MaxEvents: 120}
	res := pr.Run(cfg)
	fmt.Println(res.Summary())
	for _, a := range res.Aborts {
		fmt.Println("  ABORT", a.Label, a.Detail)
	}
	for i, tr := range res.Traces {
		fmt.Printf("path %d:\n", i)
		for _, e := range tr {
			fmt.Printf("   %s\n", sym.EventString(e))
		}
	}
	if res.TraceMeta != nil {
		fmt.Printf("meta: threads=%d chans=%v seqs=%v cells=%v wgs=%v mutexes=%d\n", res.TraceMeta.NThreads, res.TraceMeta.Chans, res.TraceMeta.Seqs, res.TraceMeta.Cells, res.TraceMeta.WGs, res.TraceMeta.NMutex)
	}
}

// cmdBMC: extract the thread trees of a concurrent harness and model check them (development aid).
func cmdBMC(args []string) {
	fs := flag.NewFlagSet("bmc", flag.ExitOnError)
	repo := fs.String("repo", "/repo/v4", "module root")
	hdir := fs.String("harness", "/verif/harness", "harness overlay directory")
	name := fs.String("fn", "", "harness function")
	params := fs.String("params", "", "")
	solver := fs.String("solver", "z3", "")
	maxEv := fs.Int("maxevents", 400, "")
	tmo := fs.Int("timeout", 120, "solver timeout per query, seconds")
	hunt := fs.Bool("hunt", false, "search mode: undecided queries are not an error")
	fs.Parse(args)
	pr, err := loadProgram(*repo, *hdir)
	if err != nil {
		fmt.Fprintln(os.Stderr, "load:", err)
		os.Exit(2)
	}
	var ps []int
	for _, s := range strings.Split(*params, ",") {
		v, _ := strconv.Atoi(s)
		ps = append(ps, v)
	}
	r := sym.ModelCheck(pr, pr.ModPath+"/zzvh", *name, ps, *solver, *tmo*1000, true, *maxEv, *hunt)
	fmt.Printf("verdict=%s kind=%s steps=%d transitions=%d statevars=%d queries=%d solver=%.2fs %s\n", r.Verdict, r.Kind, r.Steps, r.Transitions, r.StateVars, r.Queries, r.SolverS, r.Detail)
	for _, n := range r.Notes {
		fmt.Println("  note:", n)
	}
	for _, l := range r.TraceText {
		fmt.Println("  ", l)
	}
}
