package main

import (
	"flag"
	"fmt"
	"os"
	"runtime/pprof"
	"strconv"
	"strings"

	"verif/engine/sym"
)

func main() {
	if len(os.Args) < 2 {
		fmt.Fprintln(os.Stderr, "usage: gosym run|check ...")
		os.Exit(2)
	}
	switch os.Args[1] {
	case "run":
		cmdRun(os.Args[2:])
	case "check":
		cmdCheck(os.Args[2:])
	case "replay":
		cmdReplay(os.Args[2:])
	default:
		fmt.Fprintln(os.Stderr, "unknown command", os.Args[1])
		os.Exit(2)
	}
}

func loadProgram(repo, harnessDir string) (*sym.Program, error) {
	ov := map[string][]byte{}
	if err := sym.OverlayFromDir(harnessDir, repo, ov); err != nil {
		return nil, err
	}
	return sym.Load(repo, ov, "verif")
}

// cmdRun: run one harness instance (development aid).
func cmdRun(args []string) {
	fs := flag.NewFlagSet("run", flag.ExitOnError)
	repo := fs.String("repo", "/repo/v4", "module root")
	hdir := fs.String("harness", "/verif/harness", "harness overlay directory")
	pkg := fs.String("pkg", "zzvh", "harness package (relative to module path)")
	name := fs.String("fn", "", "harness function")
	params := fs.String("params", "", "comma separated int parameters")
	workers := fs.Int("workers", 8, "")
	steps := fs.Int("steps", 2000000, "")
	solver := fs.String("solver", "z3", "")
	verbose := fs.Bool("v", false, "")
	prof := fs.String("cpuprofile", "", "")
	sticky := fs.Bool("sticky", false, "one iteration order per map object")
	mapOrder := fs.Int("maporder", 3, "")
	sched := fs.Bool("sched", false, "explore interleavings")
	fs.Parse(args)
	if *prof != "" {
		f, _ := os.Create(*prof)
		pprof.StartCPUProfile(f)
		defer pprof.StopCPUProfile()
	}
	pr, err := loadProgram(*repo, *hdir)
	if err != nil {
		fmt.Fprintln(os.Stderr, "load:", err)
		os.Exit(2)
	}
	var ps []int
	if *params != "" {
		for _, s := range strings.Split(*params, ",") {
			v, _ := strconv.Atoi(s)
			ps = append(ps, v)
		}
	}
	cfg := sym.RunConfig{PkgPath: pr.ModPath + "/" + *pkg, Harness: *name, Params: ps, MaxSteps: *steps, MaxDepth: 400, MaxMake: 64,
		Workers: *workers, SolverBin: *solver, TimeoutMs: 20000, MapOrderMax: *mapOrder, MapOrderSticky: *sticky, SchedChoice: *sched}
	res := pr.Run(cfg)
	fmt.Println(res.Summary())
	for _, v := range res.Violations {
		fmt.Printf("  VIOLATION %s %s model=%v choices=%v\n", v.Label, v.Detail, v.Model, v.Choices)
	}
	for _, v := range res.Known {
		fmt.Printf("  KNOWN %s %s\n", v.Label, v.Detail)
	}
	for _, v := range res.Unknown {
		fmt.Printf("  UNKNOWN %s %s\n", v.Label, v.Detail)
	}
	for _, v := range res.Aborts {
		fmt.Printf("  ABORT %s %s\n", v.Label, v.Detail)
	}
	for _, o := range res.Observes {
		fmt.Printf("  OBSERVE %s = %s\n", o.Label, o.Detail)
	}
	if *verbose {
		for k, v := range res.Funcs {
			fmt.Printf("  fn %s x%d\n", k, v)
		}
		for k, v := range res.Stubs {
			fmt.Printf("  stub %s x%d\n", k, v)
		}
	}
}
