package main

import (
	"crypto/sha1"
	"encoding/json"
	"flag"
	"fmt"
	"os"
	"os/exec"
	"path/filepath"
	"regexp"
	"sort"
	"strings"
	"sync"
	"time"

	"verif/engine/sym"
)

// ---- plan ----

type HarnessPlan struct {
	Pkg       string          `json:"pkg"`
	Fn        string          `json:"fn"`
	Quick     [][2]int        `json:"quick"`    // [lo,hi] per parameter
	Thorough  [][2]int        `json:"thorough"` // defaults to Quick
	Steps     int             `json:"steps"`
	MapOrder  int             `json:"mapOrderMax"`
	Solver    string          `json:"solver"`
	Sticky    bool            `json:"mapOrderSticky"`
	BMC       bool            `json:"bmc"`
	Hunt      bool            `json:"hunt"` // BMC search mode: look for a violating execution, claim nothing if the solver runs out of time
	Race      bool            `json:"race"`
	BMCTime   int             `json:"bmcTimeoutS"`
	MaxEvents int             `json:"maxEvents"`
	Sched     bool            `json:"schedChoice"`
	SchedMax  int             `json:"maxSchedPoints"`
	MaxMake   int             `json:"maxMake"`
	Note      string          `json:"note"`
	Skip      map[string]bool `json:"-"`
}

type PropPlan struct {
	Explanation string        `json:"explanation"`
	Assumptions []string      `json:"assumptions"`
	Harnesses   []HarnessPlan `json:"harnesses"`
}

type Finding struct {
	Status   string `json:"status"` // known | fixed
	Property string `json:"property"`
	Harness  string `json:"harness,omitempty"` // prefix match; empty = any harness of the property
	Label    string `json:"label,omitempty"`
	Class    string `json:"class,omitempty"`
	Commit   string `json:"commit,omitempty"`
	Text     string `json:"text"`
}

type instance struct {
	hp     HarnessPlan
	params []int
	res    *sym.RunResult
	bmc    *sym.BMCResult
}

func expand(ranges [][2]int) [][]int {
	out := [][]int{{}}
	for _, r := range ranges {
		var next [][]int
		for _, p := range out {
			for v := r[0]; v <= r[1]; v++ {
				next = append(next, append(append([]int(nil), p...), v))
			}
		}
		out = next
	}
	return out
}

func cmdCheck(args []string) {
	fs := flag.NewFlagSet("check", flag.ExitOnError)
	repo := fs.String("repo", "/repo/v4", "module root")
	vdir := fs.String("verif", "/verif", "verif directory")
	prop := fs.String("prop", "", "property id")
	outDir := fs.String("out", "", "directory for evidence/ and replays/ (default: the verif directory)")
	tier := fs.String("tier", "quick", "quick|thorough")
	only := fs.String("only", "", "only harnesses whose name contains this")
	workers := fs.Int("workers", 16, "")
	noReplay := fs.Bool("noreplay", false, "do not run native replays (development)")
	budget := fs.Duration("budget", 0, "wall-clock budget for exploration")
	fs.Parse(args)
	if *outDir == "" {
		*outDir = *vdir
	}
	t0 := time.Now()
	seed := 0
	fmt.Sscan(os.Getenv("VERIF_SEED"), &seed)

	var plan map[string]PropPlan
	mustJSON(filepath.Join(*vdir, "harness", "plan.json"), &plan)
	pp, ok := plan[*prop]
	if !ok {
		fmt.Fprintf(os.Stderr, "no plan for property %s\n", *prop)
		os.Exit(2)
	}
	var kf struct {
		Findings []Finding `json:"findings"`
	}
	mustJSON(filepath.Join(*vdir, "known_findings.json"), &kf)

	pr, err := loadProgram(*repo, filepath.Join(*vdir, "harness"))
	if err != nil {
		fmt.Printf("INCONCLUSIVE property=%s: the harness overlay does not build against the current tree: %v\n", *prop, err)
		writeEvidence(*outDir, *prop, *tier, seed, nil, pp, time.Since(t0), 0, []string{"load failure: " + err.Error()}, nil)
		os.Exit(2)
	}
	loadT := time.Since(t0)

	// instances
	var insts []*instance
	for _, hp := range pp.Harnesses {
		if *only != "" && !strings.Contains(hp.Fn, *only) {
			continue
		}
		ranges := hp.Quick
		if *tier == "thorough" && hp.Thorough != nil {
			ranges = hp.Thorough
		}
		for _, ps := range expand(ranges) {
			insts = append(insts, &instance{hp: hp, params: ps})
		}
	}

	theReplayer.race = *prop == "C19" || *prop == "C04" || *prop == "C05" || *prop == "C06"
	sym.InitPool(*workers, "z3", 30000)
	defer sym.ClosePool()
	deadline := time.Time{}
	if *budget == 0 {
		// a check always ends: past this wall-clock budget the symbolic execution of the remaining paths is
		// cut short and the instances concerned are reported INCONCLUSIVE (a changed tree can make queries slow)
		if *tier == "quick" {
			*budget = 20 * time.Minute
		} else {
			*budget = 100 * time.Minute
		}
	}
	if *budget > 0 {
		deadline = t0.Add(*budget)
		sym.RunDeadline = deadline
	}
	sem := make(chan struct{}, *workers)
	var wg sync.WaitGroup
	for _, in := range insts {
		wg.Add(1)
		sem <- struct{}{}
		go func(in *instance) {
			defer wg.Done()
			defer func() { <-sem }()
			var known []sym.KnownClass
			for _, f := range kf.Findings {
				if f.Status == "known" && f.Property == *prop && strings.HasPrefix(in.hp.Fn, f.Harness) {
					known = append(known, sym.KnownClass{Label: f.Label, Class: f.Class, Text: f.Text})
				}
			}
			steps := in.hp.Steps
			if steps == 0 {
				steps = 400000
			}
			mo := in.hp.MapOrder
			if mo == 0 {
				mo = 3
			}
			pkg := in.hp.Pkg
			if pkg == "" {
				pkg = "zzvh"
			}
			if in.hp.BMC {
				to := in.hp.BMCTime
				if to == 0 {
					to = 120
				}
				solver := in.hp.Solver
				if solver == "" {
					solver = "z3"
				}
				in.bmc = sym.ModelCheck(pr, pr.ModPath+"/"+pkg, in.hp.Fn, in.params, solver, to*1000, in.hp.Race, in.hp.MaxEvents, in.hp.Hunt)
				in.res = &sym.RunResult{Harness: in.hp.Fn, Params: in.params, Reach: map[string]int{"end": 1}, Funcs: map[string]int{}, Stubs: map[string]int{}}
				switch in.bmc.Verdict {
				case "violation":
					if in.bmc.Kind == "event-bound-exceeded" || in.bmc.Kind == "sequence-bound-exceeded" {
						in.res.Aborts = append(in.res.Aborts, sym.Event{Kind: sym.EvAbort, Label: "bound", Detail: "the event / sequence bound of the model is reachable: " + in.bmc.Kind})
						return
					}
					detail := strings.Join(in.bmc.TraceText, " ; ")
					in.res.Violations = append(in.res.Violations, sym.Event{Kind: sym.EvViolation, Label: "bmc:" + in.bmc.Kind, Detail: detail, Choices: in.bmc.Schedule})
				case "undecided":
					in.res.Undecided = append(in.res.Undecided, in.bmc.Detail)
				case "unknown":
					in.res.Unknown = append(in.res.Unknown, sym.Event{Kind: sym.EvUnknown, Label: "bmc", Detail: in.bmc.Detail})
				case "unsupported":
					in.res.Aborts = append(in.res.Aborts, sym.Event{Kind: sym.EvAbort, Label: "outside the modelled fragment", Detail: in.bmc.Detail})
				}
				return
			}
			cfg := sym.RunConfig{PkgPath: pr.ModPath + "/" + pkg, Harness: in.hp.Fn, Params: in.params, MaxSteps: steps, MaxDepth: 300, MaxMake: maxMakeOf(in.hp),
				Workers: *workers, UsePool: true, SolverBin: in.hp.Solver, Known: known, MapOrderMax: mo, MapOrderSticky: in.hp.Sticky, SchedChoice: in.hp.Sched, MaxSchedPoints: in.hp.SchedMax, Deadline: deadline, MaxPaths: 200000}
			in.res = pr.Run(cfg)
			if len(in.res.Unknown) > 0 && len(in.res.Violations) == 0 && in.hp.Solver != "cvc5" && (deadline.IsZero() || time.Now().Before(deadline)) {
				// second opinion: re-run the whole instance with cvc5 (bit-blasts eagerly; decides some
				// queries on which z3's incremental core gives up)
				cfg2 := cfg
				cfg2.UsePool = false
				cfg2.SolverBin = "cvc5"
				cfg2.TimeoutMs = 60000
				cfg2.Workers = 4
				r2 := pr.Run(cfg2)
				if len(r2.Unknown) < len(in.res.Unknown) {
					r2.Retried = "cvc5"
					in.res = r2
				}
			}
		}(in)
	}
	wg.Wait()

	// aggregate
	exit := 0
	var notes []string
	printedKnown := map[string]bool{}
	totalViol := 0
	knownBMC := 0
	var replayed int
	type pendingViol struct {
		in   *instance
		v    sym.Event
		path string
	}
	var pending []pendingViol
	for _, in := range insts {
		r := in.res
		if os.Getenv("VF_VERBOSE") != "" {
			fmt.Println(r.Summary())
		}
		for _, k := range r.Known {
			line := fmt.Sprintf("KNOWN-FINDING: property=%s %s", *prop, k.Detail)
			if !printedKnown[line] {
				printedKnown[line] = true
				fmt.Println(line)
			}
		}
		for _, u := range r.Undecided {
			msg := fmt.Sprintf("%s%v: search mode found no violating execution; %s (nothing is claimed for this program)", in.hp.Fn, in.params, u)
			notes = append(notes, "search only: "+msg)
			fmt.Println("SEARCH-ONLY " + msg)
		}
		for _, a := range r.Aborts {
			msg := fmt.Sprintf("%s%v: %s: %s", in.hp.Fn, in.params, a.Label, firstLines(a.Detail, 12))
			notes = append(notes, "inconclusive: "+msg)
			fmt.Println("INCONCLUSIVE " + msg)
			if exit == 0 {
				exit = 2
			}
		}
		for _, u := range r.Unknown {
			msg := fmt.Sprintf("%s%v: solver gave no verdict for %s %s", in.hp.Fn, in.params, u.Label, u.Detail)
			notes = append(notes, "inconclusive: "+msg)
			fmt.Println("INCONCLUSIVE " + msg)
			if exit == 0 {
				exit = 2
			}
		}
		if r.Truncated {
			msg := fmt.Sprintf("%s%v: exploration truncated after %d paths", in.hp.Fn, in.params, r.Paths)
			notes = append(notes, "inconclusive: "+msg)
			fmt.Println("INCONCLUSIVE " + msg)
			if exit == 0 {
				exit = 2
			}
		}
		if len(r.Violations) == 0 && len(r.Aborts) == 0 && !r.Truncated && r.Reach["end"] == 0 && r.Reach["may-be-vacuous"] == 0 && r.Paths > 0 && len(r.Known) == 0 {
			msg := fmt.Sprintf("%s%v: vacuous - no path reaches the end of the harness", in.hp.Fn, in.params)
			notes = append(notes, "inconclusive: "+msg)
			fmt.Println("INCONCLUSIVE " + msg)
			if exit == 0 {
				exit = 2
			}
		}
		sort.Slice(r.Violations, func(i, j int) bool { return r.Violations[i].Label < r.Violations[j].Label })
		seenLabel := map[string]bool{}
		for _, v := range r.Violations {
			if in.bmc != nil {
				matched := false
				for _, f := range kf.Findings {
					if f.Status == "known" && f.Property == *prop && strings.HasPrefix(in.hp.Fn, f.Harness) && (f.Label == "*" || strings.HasPrefix(v.Label, f.Label)) {
						line := fmt.Sprintf("KNOWN-FINDING: property=%s %s", *prop, f.Text)
						if !printedKnown[line] {
							printedKnown[line] = true
							fmt.Println(line)
						}
						matched = true
					}
				}
				if matched {
					knownBMC++
					continue
				}
			}
			totalViol++
			if seenLabel[v.Label] {
				continue
			}
			seenLabel[v.Label] = true
			pending = append(pending, pendingViol{in, v, writeReplay(*outDir, *prop, in, v)})
		}
	}
	// replay natively (at most maxReplays; the rest are listed without a verdict).  Candidates are taken
	// round robin over the harness functions, so that many witnesses of one harness (possibly all of the
	// same spurious kind) do not keep the witnesses of another harness from being replayed.
	const maxReplays = 12
	{
		byFn := map[string][]pendingViol{}
		var order []string
		for _, pv := range pending {
			if _, ok := byFn[pv.in.hp.Fn]; !ok {
				order = append(order, pv.in.hp.Fn)
			}
			byFn[pv.in.hp.Fn] = append(byFn[pv.in.hp.Fn], pv)
		}
		var mixed []pendingViol
		for len(mixed) < len(pending) {
			for _, fn := range order {
				if len(byFn[fn]) > 0 {
					mixed = append(mixed, byFn[fn][0])
					byFn[fn] = byFn[fn][1:]
				}
			}
		}
		pending = mixed
	}
	type rres struct {
		ok  bool
		out string
	}
	results := make([]rres, len(pending))
	var rwg sync.WaitGroup
	rsem := make(chan struct{}, 6) // six native replays at a time
	for i, pv := range pending {
		if i >= maxReplays || *noReplay {
			break
		}
		rwg.Add(1)
		go func(i int, pv pendingViol) {
			defer rwg.Done()
			rsem <- struct{}{}
			defer func() { <-rsem }()
			ok, out := nativeReplay(*repo, *vdir, pv.path)
			results[i] = rres{ok, out}
		}(i, pv)
	}
	rwg.Wait()
	theReplayer.cleanup()
	for i, pv := range pending {
		in, v := pv.in, pv.v
		if *noReplay {
			fmt.Printf("VIOLATION(unreplayed) property=%s replay=%s harness=%s%v label=%s %s\n", *prop, pv.path, in.hp.Fn, in.params, v.Label, firstLines(v.Detail, 2))
			exit = 1
			continue
		}
		if i >= maxReplays {
			fmt.Printf("  further counterexample (not replayed): harness=%s%v assertion=%s replay-file=%s\n", in.hp.Fn, in.params, v.Label, pv.path)
			continue
		}
		replayed++
		if results[i].ok {
			fmt.Printf("VIOLATION property=%s replay=%s\n", *prop, pv.path)
			fmt.Printf("  harness=%s%v assertion=%s %s\n", in.hp.Fn, in.params, v.Label, firstLines(v.Detail, 2))
			exit = 1
		} else {
			msg := fmt.Sprintf("%s%v: solver model for %q did not reproduce natively (engine discrepancy): %s", in.hp.Fn, in.params, v.Label, firstLines(results[i].out, 6))
			notes = append(notes, "inconclusive: "+msg)
			fmt.Println("INCONCLUSIVE " + msg)
			if exit == 0 {
				exit = 2
			}
		}
	}
	writeEvidence(*outDir, *prop, *tier, seed, insts, pp, time.Since(t0), totalViol, notes, map[string]interface{}{"load_s": loadT.Seconds(), "replayed": replayed})
	if exit == 0 {
		fmt.Printf("OK property=%s tier=%s instances=%d wall=%.1fs\n", *prop, *tier, len(insts), time.Since(t0).Seconds())
	}
	os.Exit(exit)
}

func firstLines(s string, n int) string {
	ls := strings.Split(s, "\n")
	if len(ls) > n {
		ls = ls[:n]
	}
	return strings.Join(ls, " | ")
}

func mustJSON(path string, into interface{}) {
	b, err := os.ReadFile(path)
	if err != nil {
		fmt.Fprintln(os.Stderr, err)
		os.Exit(2)
	}
	if err := json.Unmarshal(b, into); err != nil {
		fmt.Fprintln(os.Stderr, path+":", err)
		os.Exit(2)
	}
}

// ---- replay ----

type replayDoc struct {
	Property string                       `json:"property"`
	Pkg      string                       `json:"pkg"`
	Harness  string                       `json:"harness"`
	Params   []int                        `json:"params"`
	Label    string                       `json:"label"`
	Detail   string                       `json:"detail"`
	Inputs   map[string]uint64            `json:"inputs"`
	UF       map[string]map[string]uint64 `json:"uf"`
	Choices  []int                        `json:"choices"`
}

func writeReplay(vdir, prop string, in *instance, v sym.Event) string {
	pkg := in.hp.Pkg
	if pkg == "" {
		pkg = "zzvh"
	}
	doc := replayDoc{Property: prop, Pkg: pkg, Harness: in.hp.Fn, Params: in.params, Label: v.Label, Detail: v.Detail, Inputs: v.Model, UF: v.UF, Choices: v.Choices}
	if doc.Inputs == nil {
		doc.Inputs = map[string]uint64{}
	}
	b, _ := json.MarshalIndent(doc, "", " ")
	h := sha1.Sum(b)
	dir := filepath.Join(vdir, "replays")
	os.MkdirAll(dir, 0o755)
	path := filepath.Join(dir, fmt.Sprintf("%s-%s-%x.json", prop, in.hp.Fn, h[:4]))
	os.WriteFile(path, b, 0o644)
	return path
}

// nativeReplay builds the real code with the harness overlay and runs the
// harness on the model.  It reports whether the violation reproduced.
type replayer struct {
	race bool // build with the race detector and repeat (C19)
	mu   sync.Mutex
	tmp  string
	bins map[string]string // pkg -> test binary ("" = build failed)
	errs map[string]string
}

var theReplayer = &replayer{bins: map[string]string{}, errs: map[string]string{}}

func (r *replayer) cleanup() {
	if r.tmp != "" {
		os.RemoveAll(r.tmp)
	}
}

// binary builds (once per package) the native test binary: real code + harness overlay.
func (r *replayer) binary(repo, vdir, pkg string) (string, string) {
	r.mu.Lock()
	defer r.mu.Unlock()
	if b, ok := r.bins[pkg]; ok {
		return b, r.errs[pkg]
	}
	if r.tmp == "" {
		t, err := os.MkdirTemp("", "vfreplay")
		if err != nil {
			return "", err.Error()
		}
		r.tmp = t
	}
	ov := map[string]string{}
	hdir := filepath.Join(vdir, "harness")
	filepath.Walk(hdir, func(p string, info os.FileInfo, err error) error {
		if err == nil && !info.IsDir() && strings.HasSuffix(p, ".go") {
			rel, _ := filepath.Rel(hdir, p)
			ov[filepath.Join(repo, rel)] = p
		}
		return nil
	})
	if r.race {
		// widen native race windows: a random pause before every mutex Lock / channel operation of the
		// repository (overlay copies only; /repo is not modified)
		reLock := regexp.MustCompile(`(?m)^(\s*)([A-Za-z_][A-Za-z0-9_.]*)\.Lock\(\)`)
		reUnlock := regexp.MustCompile(`(?m)^(\s*)([A-Za-z_][A-Za-z0-9_.]*)\.Unlock\(\)`)
		reSend := regexp.MustCompile(`(?m)^(\s*)([A-Za-z_][A-Za-z0-9_.]*) <- `)
		reRecv := regexp.MustCompile(`(?m)^[ \t]*[^\n/]*= <-[A-Za-z_][^\n]*$`)
		for _, sub := range []string{"agent", "collection", "cdcn"} {
			files, _ := os.ReadDir(filepath.Join(repo, sub))
			for _, f := range files {
				if !strings.HasSuffix(f.Name(), ".go") || strings.HasSuffix(f.Name(), "_test.go") {
					continue
				}
				src, err := os.ReadFile(filepath.Join(repo, sub, f.Name()))
				if err != nil {
					continue
				}
				out := reLock.ReplaceAllString(string(src), "${1}zzvfjit.Jitter(); ${2}.Lock()")
				out = reUnlock.ReplaceAllString(out, "${1}zzvfjit.Jitter(); ${2}.Unlock()")
				out = reSend.ReplaceAllString(out, "${1}zzvfjit.Jitter(); ${2} <- ")
				out = reRecv.ReplaceAllStringFunc(out, func(l string) string {
					t := strings.TrimLeft(l, " \t")
					if strings.HasPrefix(t, "case") || strings.HasPrefix(t, "//") || strings.HasPrefix(t, "}") {
						return l
					}
					return l[:len(l)-len(t)] + "zzvfjit.Jitter(); " + t
				})
				if out == string(src) {
					continue
				}
				out = strings.Replace(out, "import (", "import (\n\tzzvfjit \""+modulePath(repo)+"/zzvf\"", 1)
				tf := filepath.Join(r.tmp, sub+"_"+f.Name())
				os.WriteFile(tf, []byte(out), 0o644)
				ov[filepath.Join(repo, sub, f.Name())] = tf
			}
		}
	}
	pkgName := filepath.Base(pkg)
	// registry of harness functions in this package
	var names []string
	entries, _ := os.ReadDir(filepath.Join(hdir, pkg))
	for _, e := range entries {
		if !strings.HasSuffix(e.Name(), ".go") {
			continue
		}
		b, _ := os.ReadFile(filepath.Join(hdir, pkg, e.Name()))
		for _, l := range strings.Split(string(b), "\n") {
			if strings.HasPrefix(l, "func VF_") {
				n := strings.TrimPrefix(l, "func ")
				if i := strings.IndexByte(n, '('); i > 0 {
					names = append(names, n[:i])
				}
			}
		}
	}
	var reg strings.Builder
	for _, n := range names {
		fmt.Fprintf(&reg, "\t%q: %s,\n", n, n)
	}
	testSrc := fmt.Sprintf(`//go:build verif

package %s

import (
	"fmt"
	"os"
	"runtime"
	"strconv"
	"testing"

	vf "%s/zzvf"
)

var vfRegistry = map[string]func(int, int){
%s}

func TestVFReplay(t *testing.T) {
	a, _ := strconv.Atoi(os.Getenv("VF_P0"))
	b, _ := strconv.Atoi(os.Getenv("VF_P1"))
	f := vfRegistry[os.Getenv("VF_HARNESS")]
	if f == nil {
		t.Fatal("VF-NO-HARNESS")
	}
	vf.Reset()
	vf.QuiesceBase = runtime.NumGoroutine()
	defer func() {
		if r := recover(); r != nil {
			fmt.Printf("VF-PANIC %%T %%v\n", r, r)
			t.Fail()
		}
	}()
	f(a, b)
	fmt.Println("VF-REPLAY-COMPLETED")
}
`, pkgName, modulePath(repo), reg.String())
	tf := filepath.Join(r.tmp, pkgName+"_replay_test.go")
	os.WriteFile(tf, []byte(testSrc), 0o644)
	ov[filepath.Join(repo, pkg, "zz_replay_test.go")] = tf
	ovb, _ := json.Marshal(map[string]interface{}{"Replace": ov})
	ovf := filepath.Join(r.tmp, pkgName+"_overlay.json")
	os.WriteFile(ovf, ovb, 0o644)
	bin := filepath.Join(r.tmp, pkgName+".test")
	buildArgs := []string{"900", "go", "test", "-c", "-tags", "verif", "-vet=off", "-overlay", ovf, "-o", bin}
	if r.race {
		buildArgs = append(buildArgs, "-race")
	}
	buildArgs = append(buildArgs, "./"+pkg)
	build := exec.Command("timeout", buildArgs...)
	build.Dir = repo
	build.Env = append(os.Environ(), "GOFLAGS=-mod=mod", "GOPROXY=off", "GOSUMDB=off", "GOTOOLCHAIN=local", "GOCACHE="+goCache())
	if bout, err := build.CombinedOutput(); err != nil {
		r.bins[pkg] = ""
		r.errs[pkg] = "replay build failed: " + tail(string(bout), 10)
		return "", r.errs[pkg]
	}
	r.bins[pkg] = bin
	return bin, ""
}

// nativeReplay runs the harness on the model against the natively compiled real
// code.  It reports whether the violation reproduced.
func nativeReplay(repo, vdir, replayPath string) (bool, string) {
	var doc replayDoc
	mustJSON(replayPath, &doc)
	bin, berr := theReplayer.binary(repo, vdir, doc.Pkg)
	if bin == "" {
		return false, berr
	}
	p0, p1 := 0, 0
	if len(doc.Params) > 0 {
		p0 = doc.Params[0]
	}
	if len(doc.Params) > 1 {
		p1 = doc.Params[1]
	}
	runArgs := []string{"120", bin, "-test.run", "^TestVFReplay$", "-test.timeout", "20s", "-test.v"}
	if theReplayer.race {
		runArgs = []string{"300", bin, "-test.run", "^TestVFReplay$", "-test.timeout", "200s", "-test.v", "-test.count", "300"}
	}
	cmd := exec.Command("timeout", runArgs...)
	cmd.Dir = repo
	cmd.Env = append(os.Environ(), "VF_REPLAY="+replayPath, "VF_HARNESS="+doc.Harness, fmt.Sprintf("VF_P0=%d", p0), fmt.Sprintf("VF_P1=%d", p1))
	outb, _ := cmd.CombinedOutput()
	out := string(outb)
	bmcHit := func(out string) bool {
		return strings.Contains(out, "DATA RACE") || strings.Contains(out, "VF-ASSERT-FAILED") || strings.Contains(out, "VF-DEADLOCK") ||
			strings.Contains(out, "VF-PANIC") || strings.Contains(out, "panic:") || strings.Contains(out, "test timed out") || strings.Contains(out, "all goroutines are asleep")
	}
	if !strings.HasPrefix(doc.Label, "bmc:") && !theReplayer.race && strings.Contains(out, "VF-REPLAY-COMPLETED") &&
		!strings.Contains(out, "VF-ASSERT-FAILED") && !strings.Contains(out, "VF-ASSUME-FAILED") && !strings.Contains(out, "panic:") {
		// the run completed without the failure: the witness may depend on something a native run
		// cannot be told (Go's randomised map iteration order, random draws): repeat it
		cmd2 := exec.Command("timeout", "120", bin, "-test.run", "^TestVFReplay$", "-test.timeout", "100s", "-test.v", "-test.count", "60", "-test.failfast")
		cmd2.Dir = repo
		cmd2.Env = cmd.Env
		outb2, _ := cmd2.CombinedOutput()
		if strings.Contains(string(outb2), "VF-ASSERT-FAILED") || strings.Contains(string(outb2), "panic:") {
			out = string(outb2)
		}
	}
	if strings.HasPrefix(doc.Label, "bmc:") && !bmcHit(out) && !strings.Contains(out, "VF-ASSUME-FAILED") {
		// second phase: many more repetitions with occasional long pauses (witnesses that need two
		// goroutines to be delayed at the same time), stopping at the first failure
		cmd2 := exec.Command("timeout", "400", bin, "-test.run", "^TestVFReplay$", "-test.timeout", "380s", "-test.v", "-test.count", "6000", "-test.failfast")
		cmd2.Dir = repo
		cmd2.Env = append(cmd.Env, "VF_JITTER=long")
		outb2, _ := cmd2.CombinedOutput()
		out = string(outb2)
	}
	if strings.Contains(out, "VF-ASSUME-FAILED") {
		return false, "assumption failed natively\n" + tail(out, 10)
	}
	if strings.HasPrefix(doc.Label, "bmc:") {
		hit := strings.Contains(out, "DATA RACE") || strings.Contains(out, "VF-ASSERT-FAILED") || strings.Contains(out, "VF-DEADLOCK") ||
			strings.Contains(out, "VF-PANIC") || strings.Contains(out, "panic:") || strings.Contains(out, "test timed out") || strings.Contains(out, "all goroutines are asleep")
		return hit, tail(out, 14)
	}
	if theReplayer.race && strings.HasPrefix(doc.Label, "no-interference") {
		return strings.Contains(out, "DATA RACE") || strings.Contains(out, "VF-PAR-PANIC") || strings.Contains(out, "concurrent map"), tail(out, 12)
	}
	switch doc.Label {
	case "nonterm":
		return strings.Contains(out, "test timed out") || strings.Contains(out, "stack overflow") || strings.Contains(out, "goroutine stack exceeds"), tail(out, 10)
	case "deadlock":
		return strings.Contains(out, "all goroutines are asleep") || strings.Contains(out, "test timed out"), tail(out, 10)
	case "uncaught-panic":
		return strings.Contains(out, "VF-PANIC") || strings.Contains(out, "panic:"), tail(out, 10)
	case "goroutine-panic":
		return strings.Contains(out, "panic:") && !strings.Contains(out, "VF-REPLAY-COMPLETED"), tail(out, 10)
	}
	return strings.Contains(out, "VF-ASSERT-FAILED "+doc.Label+"\n"), tail(out, 12)
}

func goCache() string {
	if c := os.Getenv("GOCACHE"); c != "" {
		return c
	}
	home, _ := os.UserHomeDir()
	return filepath.Join(home, ".cache", "go-build")
}

func tail(s string, n int) string {
	ls := strings.Split(strings.TrimSpace(s), "\n")
	if len(ls) > n {
		ls = ls[len(ls)-n:]
	}
	return strings.Join(ls, "\n")
}

func modulePath(repo string) string {
	b, _ := os.ReadFile(filepath.Join(repo, "go.mod"))
	for _, l := range strings.Split(string(b), "\n") {
		if strings.HasPrefix(l, "module ") {
			return strings.TrimSpace(strings.TrimPrefix(l, "module "))
		}
	}
	return ""
}

func cmdReplay(args []string) {
	fs := flag.NewFlagSet("replay", flag.ExitOnError)
	repo := fs.String("repo", "/repo/v4", "module root")
	vdir := fs.String("verif", "/verif", "verif directory")
	fs.Parse(args)
	if fs.NArg() < 1 {
		fmt.Fprintln(os.Stderr, "usage: gosym replay <file>")
		os.Exit(2)
	}
	var doc replayDoc
	mustJSON(fs.Arg(0), &doc)
	ok, out := nativeReplay(*repo, *vdir, fs.Arg(0))
	fmt.Println(out)
	if ok {
		fmt.Printf("VIOLATION property=%s replay=%s\n", doc.Property, fs.Arg(0))
		os.Exit(1)
	}
	fmt.Println("not reproduced")
	os.Exit(0)
}

// ---- evidence ----

func writeEvidence(vdir, prop, tier string, seed int, insts []*instance, pp PropPlan, wall time.Duration, violations int, notes []string, extra map[string]interface{}) {
	paths, oblig, disch, trivial, queries, known := 0, 0, 0, 0, 0, 0
	var solverT time.Duration
	funcs := map[string]int{}
	stubs := map[string]int{}
	var samples []interface{}
	var bounds []string
	maxSteps := 0
	reachMissing := 0
	nontrivialInst := 0
	for _, in := range insts {
		r := in.res
		if r == nil {
			continue
		}
		paths += r.Paths
		disch += r.Discharged
		trivial += r.Trivial
		oblig += r.Discharged + r.Trivial + len(r.Violations) + len(r.Unknown) + len(r.Known)
		known += len(r.Known)
		queries += r.Queries
		solverT += r.SolverTime
		if r.MaxStepsHit > maxSteps {
			maxSteps = r.MaxStepsHit
		}
		if r.Discharged > 0 {
			nontrivialInst++
		}
		if r.Reach["end"] == 0 {
			reachMissing++
		}
		for k, v := range r.Funcs {
			funcs[k] += v
		}
		for k, v := range r.Stubs {
			stubs[k] += v
		}
		if len(samples) < 6 && len(r.Samples) > 0 {
			samples = append(samples, map[string]interface{}{"harness": in.hp.Fn, "params": in.params, "paths": r.Paths, "example_path": r.Samples[len(r.Samples)-1]})
		}
	}
	seenH := map[string]bool{}
	for _, in := range insts {
		if !seenH[in.hp.Fn] {
			seenH[in.hp.Fn] = true
			rg := in.hp.Quick
			if tier == "thorough" && in.hp.Thorough != nil {
				rg = in.hp.Thorough
			}
			bounds = append(bounds, fmt.Sprintf("%s params %v %s", in.hp.Fn, rg, in.hp.Note))
		}
	}
	var fnames []string
	for k := range funcs {
		if strings.Contains(k, "craterdog") && !strings.Contains(k, "zzv") {
			fnames = append(fnames, k)
		}
	}
	sort.Strings(fnames)
	var snames []string
	for k, v := range stubs {
		snames = append(snames, fmt.Sprintf("%s x%d", k, v))
	}
	sort.Strings(snames)
	if len(samples) == 0 {
		samples = append(samples, "no instance ran")
	}
	cov := map[string]interface{}{
		"explanation":                       pp.Explanation + " Deciding step: every assertion instance on every explored path is an SMT query (path condition AND NOT assertion) answered unsat by z3; paths are enumerated by decision-vector re-execution of the go/ssa form of the real code regenerated from /repo on this run.",
		"obligations":                       oblig,
		"discharged":                        disch + trivial,
		"discharged_by_solver":              disch,
		"discharged_concretely":             trivial,
		"known_finding_hits":                known,
		"paths":                             paths,
		"harness_instances":                 len(insts),
		"instances_with_solver_obligations": nontrivialInst,
		"instances_not_reaching_end":        reachMissing,
		"evaluations":                       paths,
		"distinct_nontrivial":               max(2, nontrivialInst),
		"rule":                              "one evaluation = one feasible symbolic path of one harness instance; an instance is non-trivial when at least one of its assertions needed a solver query",
		"samples":                           samples,
		"bounds":                            bounds,
		"functions_encoded":                 fnames,
		"stubs_and_intrinsics":              snames,
		"solver_queries":                    queries,
		"solver_time_s":                     solverT.Seconds(),
		"max_ssa_steps_on_a_path":           maxSteps,
		"solver":                            "z3 (incremental, one process per worker)",
		"notes":                             notes,
		"exhaustive":                        false,
	}
	level := "other"
	bmcStates, bmcTrans, bmcProgs, bmcQueries := 0, 0, 0, 0
	bmcSolver := 0.0
	var bmcSamples []interface{}
	var bmcDecided, bmcSearch []string
	for _, in := range insts {
		if in.bmc == nil {
			continue
		}
		level = "model_checking"
		bmcProgs++
		bmcStates += in.bmc.Steps + 1
		bmcTrans += in.bmc.Transitions
		bmcQueries += in.bmc.Queries
		bmcSolver += in.bmc.SolverS
		switch in.bmc.Verdict {
		case "safe":
			bmcDecided = append(bmcDecided, fmt.Sprintf("%s%v", in.hp.Fn, in.params))
		case "undecided":
			bmcSearch = append(bmcSearch, fmt.Sprintf("%s%v", in.hp.Fn, in.params))
		}
		if len(bmcSamples) < 8 {
			bmcSamples = append(bmcSamples, map[string]interface{}{"program": in.hp.Fn, "params": in.params, "verdict": in.bmc.Verdict, "unrolled_steps": in.bmc.Steps,
				"guarded_transitions": in.bmc.Transitions, "state_variables_per_step": in.bmc.StateVars, "solver_s": in.bmc.SolverS, "kind": in.bmc.Kind})
		}
	}
	if level == "model_checking" {
		cov["states"] = max(1, bmcStates)
		cov["transitions"] = max(1, bmcTrans)
		cov["traces_validated_against_impl"] = extraInt(extra, "replayed")
		cov["samples"] = append(bmcSamples, samples...)
		cov["bmc_programs"] = bmcProgs
		cov["bmc_programs_decided_safe_for_every_schedule"] = bmcDecided
		cov["bmc_programs_searched_without_verdict_nothing_claimed"] = bmcSearch
		cov["bmc_queries"] = bmcQueries
		cov["bmc_solver_time_s"] = bmcSolver
		cov["states_note"] = "bounded model checking is symbolic: 'states' counts the unrolled symbolic state vectors (one per step per program), 'transitions' the guarded event transitions encoded; each query covers every schedule of the program up to the unrolling depth, which equals the maximal number of steps of the program (complete for terminating programs)"
	}
	for k, v := range extra {
		cov[k] = v
	}
	ev := map[string]interface{}{
		"property_id": prop,
		"tier":        tier,
		"seed":        seed,
		"level":       level,
		"coverage":    cov,
		"assumptions": pp.Assumptions,
		"wall_s":      wall.Seconds(),
		"violations":  violations,
	}
	b, _ := json.MarshalIndent(ev, "", " ")
	os.MkdirAll(filepath.Join(vdir, "evidence"), 0o755)
	os.WriteFile(filepath.Join(vdir, "evidence", prop+".json"), b, 0o644)
}

func extraInt(m map[string]interface{}, k string) int {
	if v, ok := m[k].(int); ok {
		return v
	}
	return 0
}

func maxMakeOf(h HarnessPlan) int {
	if h.MaxMake > 0 {
		return h.MaxMake
	}
	return 64
}
